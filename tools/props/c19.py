"""C19 — damaged project files are rejected with an error, never with a crash or hang."""
import collections

PROP = "C19"
LEAN_MODS = ["Cte.Props.C19"]
HARNESS = "c19"
N = {"quick": 1, "thorough": 1}
USES_DRIVER = True
CORRESPONDENCES = ["Polygon::edge_vertices(name) on an outline of n vertices = Damage.edgeVertices (indices, none, never a crash)",
                   "Data::new + Model::try_from on a damaged generated project = Pipeline.verdict (converted / rejected / crashed)"]
SPEC_FAMILIES = (CORRESPONDENCES[0], CORRESPONDENCES[1])
RULE = ("fault enumeration on the implementation: every shipped project file (12 .ctehexml, 56 .cte, 3 KyGananciasSolares.txt, 6 NewBDL_O.tbl) "
        "x a seeded 1-in-stride slice of its lines (quick: stride 160, thorough: stride 8; result files 20 times denser; --stride 1 is exhaustive) x 14 single "
        "edits (delete, duplicate, swap with next, remove block/element, number -> text / 1e39 / 123456789012 / -7 / 0 / 99, rename a quoted reference, "
        "truncate here / after the quote that opens a value / in mid line); each damaged text is parsed and converted in a watched worker process (20 s "
        "watchdog, confirmed alone with 3 minutes); a damaged result file is converted with its project through collect_hulc_data(dir, true, true): outcome ok / err / panic(site, message class) / "
        "timeout / abort; plus vertex names of every shape (fixed list + random strings over V,digits,+,-,blank,.) x outlines of 0..5 vertices "
        "against the model; non-trivial = the edit applies to the line; distinct = distinct (file, line, edit)")
ASSUMPTIONS = ["a panic is caught by catch_unwind in the worker (the harness builds /repo with panic=unwind; the shipped release profile aborts instead)",
               "a damaged file that needs more than 20 s, and again more than 3 minutes when run alone, is a hang (intact files take < 1 s)"]
TRUSTED = ["modelled: the BDL path of a project — Bdl.buildBlocks (block parser), BdlData.dataNew (typed elements, Data::new), Conv.convert "
           "(references of Model::try_from), Damage.edgeVertices, Schedules.periodLengths — proved never to crash (pipeline_never_crashes) and compared "
           "with the implementation's verdict on damaged generated projects; the XML reader, the systems sections, the catalogue, geometry values and "
           "the indicator-free parts of the conversion are exercised on the implementation only: for them the enumeration decides, not a theorem"]
_stats = collections.Counter()
_summary = {}


def compare(case, out):
    if case.get("op") == "verdict":
        _stats["verdict_cases"] += 1
        _stats["verdict:" + case["impl"]] += 1
        if case["impl"] != out.get("v"):
            return [(CORRESPONDENCES[1], f"{case['label']}: implementation {case['impl']}, model {out.get('v')}")]
        return []
    if case.get("op") != "edgevert":
        return []
    _stats["edge_cases"] += 1
    imp = case["impl"]
    mo = out.get("r")
    _stats["edge_" + (imp if isinstance(imp, str) else "some")] += 1
    if imp != mo:
        return [(CORRESPONDENCES[0], f"name {case['name']!r}, outline of {case['n']} vertices: implementation {imp}, model {mo}")]
    return []


def oracle(case):
    v = []
    k = case.get("kind")
    i = case["impl"]
    if k == "verdict":
        if i == "crashed":
            v.append({"what": f"{case['label']}: parsing + conversion of a damaged generated project crashes", "key": {"class": "panic", "site": "generated-project"}})
        return v
    if k == "failure":
        ex = i["first_example"]
        where = f"{ex['file']} line {ex['line']} edit {ex['edit']}"
        if i["class"] == "panic":
            v.append({"what": f"crash at {i['site']} ({i['msg']}) on {i['count']} damaged file(s), first: {where}",
                      "key": {"class": "panic", "site": i["site"], "msg": i["msg"]}})
        else:
            v.append({"what": f"{i['class']} on {i['count']} damaged file(s), first: {where}",
                      "key": {"class": i["class"], "file": ex["file"].rsplit("/", 1)[-1], "edit": ex["edit"]}})
    elif k == "summary":
        _summary.update(i)
        if not i["outcomes"].get("err") or not i["outcomes"].get("ok"):
            v.append({"what": f"the enumeration is not exercising both outcomes: {i['outcomes']}", "key": {"class": "harness-degenerate"}})
    return v


def nontrivial(case):
    return True


def distinct_key(case):
    return (case.get("kind"), case.get("label"), case.get("name"), case.get("n"))


def branch(case, out):
    if case.get("op") == "verdict":
        return "verdict:" + case["impl"]
    if case.get("op") == "edgevert":
        imp = case["impl"]
        return "edge:" + (imp if isinstance(imp, str) else "some")
    return case.get("kind")


def sample(case, out):
    return {k: case.get(k) for k in ("kind", "label", "name", "n", "impl")}


def extra_coverage():
    d = dict(_stats)
    d["enumeration"] = _summary
    return d
