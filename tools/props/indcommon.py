"""Comparison of the Lean indicator model (three rounding regimes: base / lo / hi) with the
implementation's EnergyIndicators, shared by C06–C11."""
import math
from spec import finite

REGIMES = ("base", "lo", "hi")


def num(x):
    return x if finite(x) else None


def r2_match(impl, vals):
    """impl agrees with the model when it equals one of the regime values to two decimals"""
    if impl is None:
        return False
    return any(v is not None and abs(impl - v) < 0.005 for v in vals)


def rel_match(impl, vals, rel=1e-3, ab=1e-4):
    if impl is None:
        return False
    return any(v is not None and abs(impl - v) <= ab + rel * max(1.0, abs(v)) for v in vals)


def get(out, path):
    """value at `path` in each regime"""
    res = []
    for r in REGIMES:
        v = out.get(r)
        for k in path:
            if v is None:
                break
            v = v.get(k) if isinstance(v, dict) else None
        res.append(v)
    return res


def flipped(impl, vals):
    """impl matches a nudged regime but not the base one: a rounding tie went the other way in f32"""
    return impl is not None and vals[0] is not None and abs(impl - vals[0]) >= 0.005 and r2_match(impl, vals[1:])


def ok_case(case):
    return case["impl"].get("outcome") == "ok"


def impl_ind(case):
    return case["impl"]["ind"]


def wall_u_compare(case, out):
    """per wall: Option exactly, value under R2 with the tie regimes. returns (disagreements, flips, nf)"""
    dis, flips, nf = [], 0, 0
    pw = impl_ind(case)["props"]["walls"]
    base = out["base"]["walls"]
    for wid, w in base.items():
        iw = pw.get(wid)
        if iw is None:
            dis.append(f"wall {wid} missing in impl props")
            continue
        iu = iw["u_value"]
        us = get(out, ["walls", wid, "u"])
        if us[0] is None:
            # `None` in the model; serde prints both None and non-finite as null
            if iu is not None:
                dis.append(f"wall {wid} ({w['bounds']},{w['tilt']}): impl U={iu}, model none")
            continue
        if any(u is not None and u.get("nf") for u in us):
            nf += 1
            if finite(iu) and not r2_match(iu, [u["v"] for u in us if u]):
                # a zero denominator in the model: f32 gives inf/NaN or whatever follows from them
                pass
            continue
        vals = [u["v"] if u else None for u in us]
        if iu is None:
            dis.append(f"wall {wid} ({w['bounds']},{w['tilt']}): impl U=null, model {vals[0]}")
        elif not r2_match(iu, vals):
            dis.append(f"wall {wid} ({w['bounds']},{w['tilt']}): impl U={iu:.4f}, model {vals}")
        elif flipped(iu, vals):
            flips += 1
    return dis, flips, nf


def elem_flips(case, out):
    """number of rounded element-level quantities on which f32 resolved a tie differently"""
    n = 0
    ind = impl_ind(case)
    pw = ind["props"]["walls"]
    for wid in out["base"]["walls"]:
        if wid in pw:
            if flipped(pw[wid]["area_net"], get(out, ["walls", wid, "area_net"])):
                n += 1
            us = get(out, ["walls", wid, "u"])
            if us[0] is not None and pw[wid]["u_value"] is not None:
                if flipped(pw[wid]["u_value"], [u["v"] if u else None for u in us]):
                    n += 1
    pc = ind["props"]["wincons"]
    for cid in out["base"]["wincons"]:
        if cid in pc:
            for k_i, k_m in (("u_value", "u"), ("g_glwi", "g_glwi"), ("g_glshwi", "g_glshwi")):
                if flipped(pc[cid][k_i], get(out, ["wincons", cid, k_m])):
                    n += 1
    g = ind["props"]["global"]
    for k in ("a_ref", "vol_env_gross", "vol_env_net"):
        if flipped(g[k], get(out, ["global", k])):
            n += 1
    return n


def branch_of_wall(w, model_spaces, wall):
    b = w["bounds"]
    if b != "INTERIOR":
        return f"{b}/{w['tilt']}"
    if wall.get("next_to") is None:
        return f"INTERIOR/{w['tilt']}/no-neighbour"
    a = model_spaces.get(wall["space"], {}).get("kind", "CONDITIONED")
    n = model_spaces.get(wall["next_to"])
    if n is None:
        return "INTERIOR/dangling"
    nk = n.get("kind", "CONDITIONED")
    ac, nc = a == "CONDITIONED", nk == "CONDITIONED"
    return f"INTERIOR/{w['tilt']}/" + ("same" if ac == nc else ("cond→uncond" if ac else "uncond→cond"))
