"""C06 — opaque U-values follow EN ISO 6946, 13370 and 13789."""
import collections
import math
from spec import M, finite
import indcommon as ic

PROP = "C06"
LEAN_MODS = ["Cte.Props.C06", "Cte.Props.C06Bounds"]
HARNESS = "ind"
N = {"quick": 250, "thorough": 6000}
CORRESPONDENCES = ["U-value of every wall (None exactly; value to two decimals, tie-aware)"]
RULE = ("every wall of shipped/converted models (legacy files in thorough) and of generated models (layer stacks incl. "
        "resistance-only and zero-conductivity materials, 4 boundary kinds x tilt classes x neighbour kinds, buried depths, "
        "perimeter insulation, ventilation per space/global/absent, broken links); a case is a model; non-trivial = "
        "at least one wall with a computable U; distinct = distinct model JSON")
ASSUMPTIONS = ["ln, pi, sqrt: rational approximations (1e-12) in the driver, parameters in the theorems",
               "f32 vs exact arithmetic: values compared to two decimals; a rounding tie may go either way (three regimes)"]
TRUSTED = ["modelled: Cte/Model/Energy.lean (Wall.uValue and what it calls), Geometry.lean, Classify.lean, Fns.lean"]
_branches = collections.Counter()
_stats = collections.Counter()


def compare(case, out):
    if not ic.ok_case(case) or "base" not in out:
        if ic.ok_case(case):
            return [(CORRESPONDENCES[0], f"model gave {str(out)[:200]}")]
        return []
    dis, flips, nf = ic.wall_u_compare(case, out)
    _stats["tie_flips"] += flips
    _stats["nf_walls"] += nf
    return [(CORRESPONDENCES[0], d) for d in dis[:5]]


def oracle(case):
    """implementation vs the statement-level recomputation (f64), to two decimals (any difference <= 0.01
    tolerated: rounding ties)"""
    v = []
    if not ic.ok_case(case):
        return v
    m = M(case["model"])
    pw = ic.impl_ind(case)["props"]["walls"]
    seen = set()
    for w in m.walls:
        if w["id"] in seen:
            continue
        seen.add(w["id"])
        if sum(1 for x in m.walls if x["id"] == w["id"]) > 1:
            continue      # duplicate ids: the last one wins in the implementation's map
        mine = m.u(w)
        theirs = pw[w["id"]]["u_value"]
        _stats["walls"] += 1
        if mine is None:
            if theirs is not None:
                v.append({"what": f"wall {w.get('name')} ({w['bounds']},{m.tilt(w)}) has U={theirs} although its construction/material/space does not resolve",
                          "key": {"class": "u-should-be-none", "bounds": w["bounds"], "tilt": m.tilt(w)}})
            continue
        if not finite(mine):
            continue
        if theirs is None or abs(mine - theirs) > 0.0101:
            v.append({"what": f"wall {w.get('name')} ({w['bounds']},{m.tilt(w)}): U={theirs}, standards give {mine}",
                      "key": {"class": "u-value", "bounds": w["bounds"], "tilt": m.tilt(w)}})
    return v[:3]


def nontrivial(case):
    return ic.ok_case(case) and any(w["u_value"] is not None for w in ic.impl_ind(case)["props"]["walls"].values())


def branch(case, out):
    if out and "base" in out:
        spaces = {s["id"]: s for s in case["model"].get("spaces", [])}
        walls = {w["id"]: w for w in case["model"].get("walls", [])}
        for wid, w in out["base"]["walls"].items():
            _branches[ic.branch_of_wall(w, spaces, walls[wid]) + ("" if w["u"] is not None else "/none")] += 1
    return case["impl"].get("outcome", "?")


def sample(case, out):
    pw = ic.impl_ind(case)["props"]["walls"]
    some = list(pw.items())[:3]
    return {"label": case["label"], "walls": len(pw),
            "u_values": [{"id": k, "impl": v["u_value"], "model": (out or {}).get("base", {}).get("walls", {}).get(k, {}).get("u")} for k, v in some]}


def extra_coverage():
    return {"wall_branches": dict(_branches.most_common(60)), "walls_checked_against_standards": _stats["walls"],
            "rounding_ties_resolved_differently_by_f32": _stats["tie_flips"], "walls_with_zero_denominator": _stats["nf_walls"]}
