"""C20 — solar geometry, radiation identities and embedded climate tables are consistent."""
import collections
import gen_common

PROP = "C20"
LEAN_MODS = ["Cte.Props.C20"]
HARNESS = "c20"
N = {"quick": 300, "thorough": 20000}
CORRESPONDENCES = ["algebraic sun/surface model at sampled (latitude, declination, hour angle, tilt, azimuth): cos of incidence, sin of altitude, surface normal, ray towards the sun"]
GENERATED_OBLIGATIONS = ["Cte/Gen/{MonthlyRad,JulyRad,ZonesMeta}.lean regenerated from the running statics (monthly_table_total_nonneg, july_table_total_nonneg, zones_meta_total, zone_names_roundtrip re-checked)"]
RULE = ("all 365 (month, day); latitude [-66,66] x declination [-23.45,23.45] x hour angle (-180,180) grid (4 deg quick, 0.5 deg thorough) with the sun "
        "between 1 and 88 deg; one surface per grid point; every hour of the shipped weather file (horizontal conservation at altitude >= 6 deg, "
        "downward surface, beam >= 0 on the 9 reference orientations); the shipped zone's rows of the monthly and July tables recomputed from the file; "
        "non-trivial/distinct are counted over the sampled points sent to the model")
ASSUMPTIONS = ["trigonometric functions are libm on both sides; the model works on (cos, sin) pairs computed in f64 by the harness",
               "tolerances: 0.05 deg on angles, 0.5 W/m2 on hourly radiation, 0.02 kWh/m2 on monthly table cells"]
TRUSTED = ["modelled: Cte/Model/Solar.lean (vector identities, radiation core); translator of the tables (harness dump + tools/gen_tables.py)"]
_stats = collections.Counter()


def generate(rundir, tier):
    return gen_common.regenerate_tables()


def compare(case, out):
    res = []
    if case.get("op") != "solar":
        return res
    for p, m in zip(case["points"], out.get("points", [])):
        if m is None:
            res.append((CORRESPONDENCES[0], "model could not read a point"))
            continue
        _stats["points"] += 1
        i = p["impl"]
        if abs(i["cos_incidence"] - m["cos_incidence"]) > 2e-4:
            res.append((CORRESPONDENCES[0], f"cos(incidence): impl {i['cos_incidence']:.6f} model {m['cos_incidence']:.6f}"))
        if abs(m["cos_incidence"] - m["normal_dot_sun"]) > 1e-9:
            res.append((CORRESPONDENCES[0], "model: five-term expression differs from normal.sun (contradicts incidence_is_angle)"))
        if abs(i["sin_altitude"] - m["sin_altitude"]) > 2e-4:
            res.append((CORRESPONDENCES[0], f"sin(altitude): impl {i['sin_altitude']:.6f} model {m['sin_altitude']:.6f}"))
        for k in ("normal", "ray_dir"):
            if any(abs(a - b) > 2e-4 for a, b in zip(i[k], m[k])):
                res.append((CORRESPONDENCES[0], f"{k}: impl {i[k]} model {m[k]}"))
        if any(abs(a - b) > 2e-4 for a, b in zip(m["ray_dir"], m["sun"])):
            res.append((CORRESPONDENCES[0], "model: ray towards the sun differs from the sun vector"))
    return res[:4]


def oracle(case):
    v = []
    k = case.get("kind")
    i = case["impl"]
    if k == "calendar":
        for b in i["bad"][:1]:
            v.append({"what": f"day number of {b['day']}/{b['month']}: {b.get('got', b.get('panic'))}, calendar says {b['want']} ({len(i['bad'])} dates wrong)",
                      "key": {"class": "nday-calendar", "day31": b["day"] == 31 and "panic" in b}})
    elif k == "sun-grid":
        if i["worst_altitude"]["err"] > 0.05:
            v.append({"what": f"sun altitude differs from spherical astronomy by {i['worst_altitude']['err']:.3f} deg at {i['worst_altitude']['at']}", "key": {"class": "altitude"}})
        if i["worst_azimuth"]["err"] > 0.1:
            v.append({"what": f"sun azimuth differs from spherical astronomy by {i['worst_azimuth']['err']:.2f} deg at {i['worst_azimuth']['at']} ({i['worst_azimuth']['n_over_0.1deg']} of {i['n']} grid points off by > 0.1 deg)",
                      "key": {"class": "azimuth"}})
        if i["worst_incidence"]["err"] > 0.05:
            v.append({"what": f"incidence angle differs from the angle between sun and outward normal by {i['worst_incidence']['err']:.3f} deg at {i['worst_incidence']['at']}", "key": {"class": "incidence"}})
        _stats["grid_points"] += i["n"]
    elif k == "radiation":
        if "error" in i:
            v.append({"what": f"weather file does not load: {i['error']}", "key": {"class": "met-file"}})
            return v
        if i["worst_horizontal"]["err"] > 0.5:
            v.append({"what": f"horizontal surface does not receive the horizontal input: off by {i['worst_horizontal']['err']} W/m2 at {i['worst_horizontal']['at']}", "key": {"class": "horizontal-conservation"}})
        if i["worst_downward"]["err"] > 0.5:
            v.append({"what": f"downward surface does not receive albedo x global: off by {i['worst_downward']['err']} W/m2 at {i['worst_downward']['at']}", "key": {"class": "downward-albedo"}})
        if i.get("worst_low_sun_downward", {}).get("err", 0) > 0.5:
            v.append({"what": f"downward surface under a low sun does not receive albedo x global: off by {i['worst_low_sun_downward']['err']} W/m2 at {i['worst_low_sun_downward']['at']}", "key": {"class": "downward-albedo", "low_sun": True}})
        if i["negative_beam"]:
            v.append({"what": f"negative beam radiation: {i['negative_beam'][0]}", "key": {"class": "beam-negative"}})
        _stats["hours_checked"] += i["hours_horizontal"]
    elif k == "tables-after-use":
        if i["zones_without_14_july_hours"] or i["zones_without_9_monthly_rows"]:
            v.append({"what": f"after computing indicators in every zone the embedded tables are no longer complete: July-day hours missing for "
                              f"{i['zones_without_14_july_hours'][:4]}, monthly rows missing for {i['zones_without_9_monthly_rows'][:4]}", "key": {"class": "tables-after-use"}})
    elif k == "tables":
        for r in i["monthly"]:
            if r["max_err_at_model_azimuth"] > 0.02 + 0.005 * r["july_table"]:
                mirrored = r["max_err_at_table_gamma"] <= 0.02 and abs(r["table_gamma"] + r["model_azimuth"]) < 1e-3
                v.append({"what": f"monthly table row {r['orientation']} of zone {case['zone']} differs from the radiation model at the azimuth the model assigns to that class "
                                  f"({r['model_azimuth']}) by up to {r['max_err_at_model_azimuth']:.2f} kWh/m2" + (" — it equals the model at the mirrored azimuth" if mirrored else ""),
                          "key": {"class": "monthly-table", "mirrored_east_west": mirrored}})
        if i["july_bad"]:
            v.append({"what": f"July design-day table differs from the weather file: {i['july_bad'][0]}", "key": {"class": "july-table"}})
        if not i["meta_matches_file"]:
            v.append({"what": "zone metadata differs from the weather file header", "key": {"class": "zone-meta"}})
    return v


def nontrivial(case):
    return True


def distinct_key(case):
    return case["label"]


def branch(case, out):
    return case.get("kind", case.get("op"))


def sample(case, out):
    if case.get("op") == "solar":
        return {"label": case["label"], "first_point": case["points"][0] if case["points"] else None, "model": (out or {}).get("points", [None])[0]}
    return {"label": case["label"], "impl": {k: (v if not isinstance(v, list) else v[:2]) for k, v in case["impl"].items()}}


def extra_coverage():
    return dict(_stats)
