"""C09 — n50 follows the DB-HE air-permeability formula."""
import collections
from spec import M, finite
import indcommon as ic

PROP = "C09"
LEAN_MODS = ["Cte.Props.C09", "Cte.Props.C09Mono"]
HARNESS = "ind"
N = {"quick": 250, "thorough": 6000}
CORRESPONDENCES = ["n50_data: n50, n50_ref, walls_a, walls_c_ref, walls_c_a_ref, walls_c, walls_c_a, windows_a, windows_c, windows_c_a, vol"]
RULE = ("real and generated models (new/existing, with/without blower-door value incl. values below the windows-only rate, "
        "windows with/without construction, multipliers, ground/adiabatic/interior elements, zero-volume and zero-wall-area "
        "corner cases); non-trivial = exposed opaque area > 0; distinct = distinct model JSON")
ASSUMPTIONS = ["relative tolerance 1e-3 on sums; tie-affected cases fall back on the implementation-vs-definition oracle"]
TRUSTED = ["modelled: n50Data in Cte/Model/Energy.lean"]
KEYS = ("n50", "n50_ref", "walls_a", "walls_c_ref", "walls_c_a_ref", "walls_c", "walls_c_a", "windows_a", "windows_c", "windows_c_a", "vol")
_stats = collections.Counter()


def compare(case, out):
    if not ic.ok_case(case):
        return []
    if "base" not in out:
        return [(CORRESPONDENCES[0], f"model gave {str(out)[:200]}")]
    N_ = ic.impl_ind(case)["n50_data"]
    bad = []
    for k in KEYS:
        vals = ic.get(out, ["n50", k])
        if not ic.rel_match(N_[k], vals, rel=1e-3, ab=1e-3):
            bad.append(f"{k}: impl={N_[k]} model={vals[0]}")
    if bad:
        if ic.elem_flips(case, out):
            _stats["tie_skipped"] += 1
            return []
        return [(CORRESPONDENCES[0], "; ".join(bad[:4]))]
    return []


def oracle(case):
    v = []
    if not ic.ok_case(case):
        return v
    ind = ic.impl_ind(case)
    m = M(case["model"])
    if len({w["id"] for w in m.walls}) != len(m.walls) or len({w["id"] for w in m.windows}) != len(m.windows):
        return v
    pw = ind["props"]["walls"]
    N_ = ind["n50_data"]
    ao = ca = ah = 0.0
    for w in m.walls:
        if not (m.is_tenv(w) and w["bounds"] == "EXTERIOR"):
            continue
        sp = m.space(w["space"])
        mult = m.mult(sp) if sp else 1.0
        ao += pw[w["id"]]["area_net"] * mult
        for x in m.windows:
            if x["wall"] != w["id"]:
                continue
            c = m.wincons(x["cons"])
            ch = c["c_100"] if c else 100.0
            ca += m.winarea(x) * ch * mult
            ah += m.winarea(x) * mult
    vol = ind["props"]["global"]["vol_env_net"]
    if not finite(vol):
        return v
    co = 16.0 if m.meta.get("is_new_building") else 29.0
    nref = 0.629 * (co * ao + ca) / vol if vol > 0.001 else 0.0
    tol = lambda x: 1e-3 * max(1.0, abs(x)) + 1e-3
    if N_["n50_ref"] is None or abs(nref - N_["n50_ref"]) > tol(nref):
        v.append({"what": f"n50_ref={N_['n50_ref']}, formula gives {nref} (Ao={ao}, sum Ch.Ah={ca}, V={vol}, Co={co})", "key": {"class": "n50-ref"}})
    if N_["walls_a"] is None or abs(N_["walls_a"] - ao) > tol(ao) or abs(N_["windows_a"] - ah) > tol(ah):
        v.append({"what": f"n50 areas: walls_a={N_['walls_a']} windows_a={N_['windows_a']}, definition gives {ao}, {ah}", "key": {"class": "n50-scope"}})
    t = m.meta.get("n50_test_ach")
    if t is not None:
        if N_["n50"] is None or abs(N_["n50"] - t) > 1e-5 * max(1, abs(t)):
            v.append({"what": f"n50={N_['n50']} with a blower-door result of {t}", "key": {"class": "n50-test"}})
        if ao > 0.001 and vol > 0.001 and finite(N_["walls_c"]):
            back = 0.629 * (N_["walls_c"] * ao + ca) / vol
            if abs(back - t) > 2e-3 * max(1.0, abs(t)):
                _stats["test_branch"] += 1
                v.append({"what": f"reported wall permeability {N_['walls_c']} does not satisfy the n50 equation: gives {back}, test value {t}",
                          "key": {"class": "n50-walls-c"}})
    else:
        if N_["n50"] != N_["n50_ref"] or N_["walls_c"] != co:
            v.append({"what": f"without test value n50={N_['n50']} n50_ref={N_['n50_ref']} walls_c={N_['walls_c']}", "key": {"class": "n50-no-test"}})
    return v[:3]


def nontrivial(case):
    return ic.ok_case(case) and finite(ic.impl_ind(case)["n50_data"]["walls_a"]) and ic.impl_ind(case)["n50_data"]["walls_a"] > 0


def branch(case, out):
    if not ic.ok_case(case):
        return case["impl"].get("outcome")
    N_ = ic.impl_ind(case)["n50_data"]
    t = case["model"].get("meta", {}).get("n50_test_ach")
    return ("test" if t is not None else "no-test") + ("/vol0" if not N_["vol"] or N_["vol"] <= 0.001 else "") + \
        ("/noWalls" if not N_["walls_a"] or N_["walls_a"] <= 0.001 else "") + \
        ("/negC" if finite(N_["walls_c"]) and N_["walls_c"] < 0 else "")


def sample(case, out):
    return {"label": case["label"], "impl": ic.impl_ind(case)["n50_data"], "model": (out or {}).get("base", {}).get("n50")}


def extra_coverage():
    return {"aggregate_comparisons_skipped_for_rounding_ties": _stats["tie_skipped"]}
