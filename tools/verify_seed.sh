#!/bin/bash
# verify_seed.sh <pending-dir> <name>: confirm a seeded change in a scratch worktree of /repo:
# it applies, the workspace builds, the existing suite passes, the demo fails with it and passes without.
# Writes <pending-dir>/verify.json. The worktree and its build output are removed afterwards.
set -u
src=$1; name=$2
root=/tmp/seedchk; wt=$root/$name
mkdir -p $root
git -C /repo worktree remove --force $wt 2>/dev/null
git -C /repo worktree add -q --detach $wt HEAD || exit 2
cp /repo/Cargo.lock $wt/
cd $wt
export CARGO_TARGET_DIR=$root/target-$name CARGO_NET_OFFLINE=true
crate=$(grep -o -- '-p [a-z0-9_]*' $src/demo_cmd.txt | head -1 | cut -d' ' -f2); crate=${crate:-bemodel}
demo=$(ls $src/*.rs | head -1); demoname=$(basename $demo .rs)
applies=false; suite_ok=false; demo_fails_with=false; demo_passes_without=false
if git apply $src/patch.diff; then applies=true; fi
cargo test --workspace --no-fail-fast --offline > $src/suite_with.log 2>&1 && suite_ok=true
passed=$(grep -h '^test result' $src/suite_with.log | sed 's/.*ok\. \([0-9]*\) passed.*/\1/' | paste -sd+ | bc)
failed=$(grep -h '^test result' $src/suite_with.log | sed 's/.*; \([0-9]*\) failed.*/\1/' | paste -sd+ | bc)
mkdir -p $crate/tests; cp $demo $crate/tests/
if cargo test -p $crate --test $demoname --offline > $src/demo_with.log 2>&1; then :; else demo_fails_with=true; fi
git apply -R $src/patch.diff
if cargo test -p $crate --test $demoname --offline > $src/demo_without.log 2>&1; then demo_passes_without=true; fi
cd /
git -C /repo worktree remove --force $wt
rm -rf $CARGO_TARGET_DIR
cat > $src/verify.json <<EOJ
{"name":"$name","base":"$(git -C /repo rev-parse --short HEAD)","applies":$applies,"suite_passes_with_change":$suite_ok,"suite_passed":${passed:-0},"suite_failed":${failed:-0},"demo_fails_with_change":$demo_fails_with,"demo_passes_without_change":$demo_passes_without,
 "ran":["git apply patch.diff","cargo test --workspace --no-fail-fast --offline","cargo test -p $crate --test $demoname --offline (with change)","git apply -R patch.diff","cargo test -p $crate --test $demoname --offline (without change)"]}
EOJ
cat $src/verify.json
