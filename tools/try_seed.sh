#!/bin/bash
# try_seed.sh <dir-with-patch.diff> <property>: apply a seeded change to /repo's working tree, run the property's quick
# check, and put the tree back.  Never commits anything in /repo.
set -u
dir=$1; prop=$2
cd /verif
if ! git -C /repo diff --quiet; then echo "/repo has uncommitted changes: refusing"; exit 2; fi
git -C /repo apply "$dir/patch.diff" || { echo "patch does not apply"; exit 2; }
./check "$prop" --tier quick 2>&1 | grep -v "^KNOWN\|^gen_" | tail -${3:-6}
git -C /repo checkout -- .
git -C /repo status --short | grep -v "Cargo.lock"
