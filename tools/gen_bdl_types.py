#!/usr/bin/env python3
"""Translator: the block-type table (`BdlBlockType::from_str`), the parent-tracking classes of `build_blocks`,
the line filters of `clean_lines`, the skipped block prefixes and the preamble markers of
`sanitize_lider_data`, read from hulc/src/bdl/blocks.rs and written as lean/Cte/Gen/BlockTypes.lean.
Fails closed: anything it cannot read the way it expects is an error, not a default."""
import os
import re
import sys

VERIF = os.path.dirname(os.path.dirname(os.path.abspath(__file__)))
SRC = "/repo/hulc/src/bdl/blocks.rs"
OUT = os.path.join(VERIF, "lean", "Cte", "Gen", "BlockTypes.lean")


def die(msg):
    print("gen_bdl_types: " + msg, file=sys.stderr)
    sys.exit(2)


def lean_str(s):
    return '"' + s.replace("\\", "\\\\").replace('"', '\\"') + '"'


def rust_str(s):
    return s.replace('\\"', '"').replace("\\\\", "\\")


def main():
    src = open(SRC, encoding="utf-8").read()
    # 1. from_str table
    m = re.search(r"impl std::str::FromStr for BdlBlockType \{.*?Ok\(match s \{(.*?)\n\s*\}\)", src, re.S)
    if not m:
        die("BdlBlockType::from_str not found")
    table = []
    for line in m.group(1).splitlines():
        line = line.strip()
        if not line or line.startswith("//"):
            continue
        a = re.match(r'"([^"]+)" => (\w+),$', line)
        if a:
            table.append((a.group(1), a.group(2)))
        elif line.startswith("_ => bail!"):
            continue
        else:
            die("unexpected arm in from_str: " + line)
    if len(table) < 40 or len({v for _, v in table}) != len(table) or len({s for s, _ in table}) != len(table):
        die("from_str table is not a bijection of >= 40 entries")
    v2s = {v: s for s, v in table}
    # 2. parent classes in build_blocks
    b = re.search(r"pub fn build_blocks.*?let parent = match bdlblock\.btype \{(.*?)\n        \};", src, re.S)
    if not b:
        die("parent match of build_blocks not found")
    body = re.sub(r"//[^\n]*", "", b.group(1))
    arms = re.findall(r"([A-Z][\w\s|]*?)\s*=>\s*(\{[^}]*\}|[^,\n]+),?", body)
    classes = {}
    for pat, rhs in arms:
        vs = [v.strip() for v in pat.split("|")]
        rhs = " ".join(rhs.split())
        if "currentfloor = bdlblock.name" in rhs and rhs.rstrip("} ").endswith("None"):
            classes["floor"] = vs
        elif "currentspace = bdlblock.name" in rhs and "Some(currentfloor.clone())" in rhs:
            classes["space"] = vs
        elif "currentwall = bdlblock.name" in rhs and "Some(currentspace.clone())" in rhs:
            classes["wall"] = vs
        elif rhs == "Some(currentwall.clone())":
            classes["child"] = vs
        else:
            die(f"unexpected parent arm: {pat} => {rhs}")
    if set(classes) != {"floor", "space", "wall", "child"} or not re.search(r"_ => None,", body):
        die("parent classes incomplete: " + str(classes))
    for k, vs in classes.items():
        for v in vs:
            if v not in v2s:
                die(f"variant {v} of class {k} has no string")
    if 'let mut currentfloor = "Default".to_string();' not in src:
        die("initial current floor is not \"Default\"")
    # 3. skipped block prefixes
    skip = re.search(r"if (block\.starts_with\(.*?)\s*\{\s*continue;", src, re.S)
    if not skip:
        die("skipped block prefixes not found")
    prefixes = re.findall(r'block\.starts_with\("([^"]+)"\)', skip.group(1))
    if len(prefixes) != skip.group(1).count("starts_with") or skip.group(1).count("||") != len(prefixes) - 1:
        die("skipped block prefix condition has an unexpected shape")
    # 4. clean_lines filters
    c = re.search(r"fn clean_lines\(input: &str\) -> String \{(.*?)\n\}", src, re.S)
    if not c:
        die("clean_lines not found")
    cb = c.group(1)
    expect_head = ['.replace("\\r\\n", "\\n")', ".replace('ÿ', \"\")", ".lines()", ".map(str::trim)", ".filter(|l| {"]
    pos = 0
    for e in expect_head:
        p = cb.find(e, pos)
        if p < 0:
            die("clean_lines: expected " + e)
        pos = p
    filt = re.search(r"\.filter\(\|l\| \{(.*?)\}\)", cb, re.S).group(1)
    filt = re.sub(r"//[^\n]*", "", filt)
    conds = [x.strip() for x in filt.split("&&")]
    starts, equals = [], []
    for cnd in conds:
        a = re.fullmatch(r"!l\.starts_with\('(.)'\)", cnd)
        b2 = re.fullmatch(r'!l\.starts_with\("([^"]+)"\)', cnd)
        e = re.fullmatch(r'\*l != "([^"]+)"', cnd)
        if cnd == "!l.is_empty()":
            continue
        elif a:
            starts.append(a.group(1))
        elif b2:
            starts.append(b2.group(1))
        elif e:
            equals.append(e.group(1))
        else:
            die("clean_lines: unexpected filter condition " + cnd)
    if "!l.is_empty()" not in conds or '.join("\\n")' not in cb:
        die("clean_lines: shape changed")
    # 5. preamble markers
    s = re.search(r"fn sanitize_lider_data.*?\n\}", src, re.S)
    markers = re.findall(r'cleanlines\.find\("((?:[^"\\]|\\.)*)"\)', s.group(0))
    if len(markers) != 2 or 'format!(\n        "\\"PARTELIDER\\" = PARTELIDER\\n{}\\n..\\n{}"' not in s.group(0):
        die("sanitize_lider_data: shape changed")
    markers = [rust_str(x) for x in markers]
    out = ["/- GENERATED by tools/gen_bdl_types.py from hulc/src/bdl/blocks.rs — do not edit -/", "namespace Cte.Gen", "",
           "/-- `BdlBlockType::from_str`: accepted type strings with the enum variant each selects -/",
           "def blockTypes : List (String × String) := ["]
    out += ["  (" + lean_str(s_) + ", " + lean_str(v) + ")" + ("," if i + 1 < len(table) else "") for i, (s_, v) in enumerate(table)]
    out += ["]", ""]
    for k in ("floor", "space", "wall", "child"):
        out.append(f"def {k}Types : List String := [" + ", ".join(lean_str(v2s[v]) for v in classes[k]) + "]")
    out += ["", "def skippedBlockPrefixes : List String := [" + ", ".join(lean_str(p) for p in prefixes) + "]",
            "def droppedLinePrefixes : List String := [" + ", ".join(lean_str(p) for p in starts) + "]",
            "def droppedLines : List String := [" + ", ".join(lean_str(p) for p in equals) + "]",
            "def preambleMarkers : List String := [" + ", ".join(lean_str(p) for p in markers) + "]",
            "", "end Cte.Gen", ""]
    os.makedirs(os.path.dirname(OUT), exist_ok=True)
    new = "\n".join(out)
    if not os.path.exists(OUT) or open(OUT).read() != new:
        open(OUT, "w").write(new)
    import json
    os.makedirs(os.path.join(VERIF, ".cache", "gen"), exist_ok=True)
    json.dump({"types": table}, open(os.path.join(VERIF, ".cache", "gen", "blocktypes.json"), "w"))
    print(f"gen_bdl_types: {len(table)} block types, classes {[(k, len(v)) for k, v in classes.items()]}, {len(prefixes)} skipped prefixes, "
          f"{len(starts)}+{len(equals)} line filters, {len(markers)} markers")


if __name__ == "__main__":
    main()
