#!/usr/bin/env python3
"""install_seed.py <pending-dir> <property> <name> <detected-by...>: copy a verified seeded change into
/verif/seeded/<name>/ with its meta.json"""
import json
import os
import shutil
import sys

src, prop, name = sys.argv[1:4]
detected = sys.argv[4:]
dst = os.path.join(os.path.dirname(os.path.dirname(os.path.abspath(__file__))), "seeded", name)
os.makedirs(dst, exist_ok=True)
ver = json.load(open(os.path.join(src, "verify.json")))
assert ver["applies"] and ver["suite_passes_with_change"] and ver["demo_fails_with_change"] and ver["demo_passes_without_change"], ver
for f in os.listdir(src):
    if f.endswith(".rs") or f in ("patch.diff", "demo_cmd.txt", "notes.md"):
        shutil.copy(os.path.join(src, f), os.path.join(dst, f))
notes = open(os.path.join(src, "notes.md")).read()
meta = {
    "property": prop,
    "breaks": notes.strip().split("\n\n")[0][:1500],
    "needs_to_manifest": "see notes.md (written by the sub-agent that made the change, which saw only the property text)",
    "base_commit": ver["base"],
    "confirmed_by_me": {
        "patch_applies": ver["applies"], "workspace_compiles_and_suite_passes": ver["suite_passes_with_change"],
        "suite_passed": ver["suite_passed"], "suite_failed": ver["suite_failed"],
        "demo_fails_with_change": ver["demo_fails_with_change"], "demo_passes_without_change": ver["demo_passes_without_change"],
        "ran": ver["ran"],
    },
    "detected_by": detected,
}
json.dump(meta, open(os.path.join(dst, "meta.json"), "w"), indent=1, ensure_ascii=False)
print("installed", dst)
