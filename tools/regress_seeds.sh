#!/bin/bash
# regress_seeds.sh [seed]: apply every seeded change under seeded/ to /repo in turn, run the quick check of its property and report
# which ones are (still) detected.  /repo must be clean and no other run may be using it.  Leaves /repo as it found it.
cd "$(dirname "$0")/.."
seed=${1:-1}
out=${2:-/tmp/regress_seeds_$seed.out}
: > $out
if [ -n "$(git -C /repo status --porcelain --untracked-files=no)" ]; then echo "/repo is not clean"; exit 2; fi
for d in seeded/*/; do
  name=$(basename $d); prop=${name%-*}
  if ! git -C /repo apply --check "$PWD/$d/patch.diff" 2>/dev/null; then echo "$name does-not-apply" >> $out; continue; fi
  git -C /repo apply "$PWD/$d/patch.diff"
  VERIF_SEED=$seed ./check $prop --tier quick > /tmp/regress_one.log 2>&1; rc=$?
  git -C /repo apply -R "$PWD/$d/patch.diff" || git -C /repo checkout -- .
  echo "$name rc=$rc $(grep -E '^\[C' /tmp/regress_one.log | sed 's/.*disagreements/disagreements/')" >> $out
done
grep -c "rc=1" $out; grep -v "rc=1" $out
