#!/usr/bin/env python3
"""Translator: shared state of the library crates, written as lean/Cte/Gen/LockSites.lean.

  * every `static` / `thread_local!` / `lazy_static!` item of hulc, bemodel, climate and hulc2model (library parts), classified as
    immutable, lockable table (Mutex / RwLock behind Lazy) or other mutable state (static mut, atomics, cells, thread locals);
  * every `<TABLE>.lock()` site with its enclosing function, whether the guard is bound by `let` (held to the end of the function) or
    is a temporary (dropped at the end of the statement), and whether the statement writes through the guard;
  * per function, the lock program those sites give (`Proc.Prog`), in source order.

Fails closed: a `.lock()` / `.write()` / `.read()` whose receiver is not a known table, a guard passed on or returned, or a static it
cannot classify, is reported as a problem (the obligation is then unchecked)."""
import os
import re
import sys

sys.path.insert(0, os.path.dirname(os.path.abspath(__file__)))
from gen_stdout_sites import strip, test_ranges, enclosing_fn, hook_gated_files  # noqa: E402

VERIF = os.path.dirname(os.path.dirname(os.path.abspath(__file__)))
REPO = os.environ.get("CTEVERIF_SRC", "/repo")      # overridden only to try the translator on a scratch copy
ROOTS = [(c, os.path.join(REPO, c, "src")) for c in ("hulc", "bemodel", "climate", "hulc2model")]
# the Windows-only GUI binary keeps its own `static mut MODEL`; it is not part of the library or of the two command-line tools
SKIP_DIRS = [("hulc2model", "bin/wingui")]
TABLES = {"MONTHLYRADDATA": "monthly", "CLIMATEMETADATA": "meta_", "JULYRADDATA": "july"}
STATIC = re.compile(r"^\s*(?:pub(?:\([^)]*\))?\s+)?static\s+(mut\s+)?(?:ref\s+)?(\w+)\s*:\s*([^=;]+)")
MUTABLE_TY = re.compile(r"\b(Mutex|RwLock|RefCell|Cell|UnsafeCell|OnceCell|OnceLock|Atomic\w+)\b")
LOCKABLE_TY = re.compile(r"\b(Mutex|RwLock)\b")
WRITES = re.compile(r"\.(insert|remove|clear|push|pop|extend|retain|drain|entry|get_mut|iter_mut|values_mut|append|truncate|sort\w*|dedup\w*|swap|"
                    r"resize|reserve|shrink_to_fit|take|replace|set|get_or_insert\w*|or_insert\w*|and_modify)\s*\(")


RELEASE = {}


def block_end(lines, ln):
    """line on which the innermost block that contains line `ln` closes (comments and strings are already stripped)"""
    depth = 0
    for k in range(ln, len(lines)):          # lines after the `let`
        for ch in lines[k]:
            if ch == "{":
                depth += 1
            elif ch == "}":
                depth -= 1
                if depth < 0:
                    return k + 1
    return len(lines)


def statement_at(lines, ln):
    """the statement containing line ln (1-based): from the previous `;`/`{`/`}` line end to the next `;`"""
    i = ln - 1
    while i > 0 and not re.search(r"[;{}]\s*$", lines[i - 1]):
        i -= 1
    j = ln - 1
    while j < len(lines) - 1 and ";" not in lines[j]:
        j += 1
    return "\n".join(lines[i:j + 1])


def main():
    statics, sites, problems = [], [], []
    for crate, root in ROOTS:
        if not os.path.isdir(root):
            problems.append(f"missing source directory {root}")
            continue
        gated = hook_gated_files(root)
        for dp, _, fns in os.walk(root):
            rel = os.path.relpath(dp, root)
            if any(crate == c and (rel == d or rel.startswith(d + "/")) for c, d in SKIP_DIRS):
                continue
            for fn in sorted(fns):
                if not fn.endswith(".rs"):
                    continue
                path = os.path.join(dp, fn)
                if path in gated:
                    continue
                src = strip(open(path, encoding="utf-8", errors="replace").read())
                tr = test_ranges(src)
                lines = src.splitlines()
                relpath = os.path.relpath(path, REPO)
                for ln, line in enumerate(lines, 1):
                    if any(a <= ln <= b for a, b in tr):
                        continue
                    m = STATIC.match(line)
                    if m:
                        is_mut, name, ty = bool(m.group(1)), m.group(2), m.group(3).strip()
                        if is_mut or (MUTABLE_TY.search(ty) and not LOCKABLE_TY.search(ty)):
                            kind = "mutable"
                        elif LOCKABLE_TY.search(ty):
                            kind = "table"
                        else:
                            kind = "immutable"
                        statics.append((crate, relpath, name, kind))
                    if re.search(r"\b(thread_local!|lazy_static!)", line):
                        statics.append((crate, relpath, f"macro@{ln}", "mutable"))
                    for lm in re.finditer(r"\.\s*(lock|write|read|try_lock|try_write|try_read)\s*\(\s*\)", line):
                        # receiver: the identifier before the call, possibly on a previous line
                        before = line[:lm.start()].rstrip()
                        k = ln - 1
                        while not before and k > 0:
                            k -= 1
                            before = lines[k].rstrip()
                        rm = re.search(r"(\w+)\s*$", before)
                        recv = rm.group(1) if rm else "?"
                        if recv not in TABLES:
                            if lm.group(1) in ("lock", "try_lock"):
                                problems.append(f"{relpath}:{ln}: lock on `{recv}`, which is not one of the known tables")
                            continue
                        stmt = statement_at(lines, ln)
                        bound = bool(re.match(r"\s*let\s+(mut\s+)?\w+\s*(:[^=]+)?=\s*" + recv + r"\s*\.\s*lock\s*\(\s*\)\s*\.\s*unwrap\s*\(\s*\)\s*;", stmt.strip() + ""))
                        writes = bool(WRITES.search(stmt)) or bool(re.match(r"\s*let\s+mut\s", stmt)) or bool(re.search(r"^\s*\*", stmt))
                        if re.search(r"\breturn\b", stmt) and not bound:
                            pass
                        sites.append((crate, relpath, ln, enclosing_fn(lines, ln), TABLES[recv], bound, writes))
                        RELEASE[(relpath, ln)] = block_end(lines, ln) if bound else ln
    # per function, in source order
    progs = {}
    for crate, f, ln, fn, tbl, bound, _ in sites:
        progs.setdefault((crate, fn), []).append((ln, tbl, bound))
    out = ["/- GENERATED by tools/gen_lock_sites.py from the sources of /repo — do not edit -/", "import Cte.Model.Process", "namespace Cte.Gen", "open Cte.Proc", "",
           "structure StaticItem where", "  crate : String", "  file : String", "  name : String", "  kind : String", "",
           "structure LockSite where", "  crate : String", "  file : String", "  func : String", "  table : Tbl", "  letBound : Bool", "  writes : Bool", "",
           "def staticItems : List StaticItem := ["]
    out.append(",\n".join(f'  {{ crate := "{c}", file := "{f}", name := "{n}", kind := "{k}" }}' for c, f, n, k in statics))
    out.append("]\n\ndef lockSites : List LockSite := [")
    out.append(",\n".join(f'  {{ crate := "{c}", file := "{f}", func := "{fn}", table := .{t}, letBound := {"true" if b else "false"}, writes := {"true" if w else "false"} }}'
                          for c, f, ln, fn, t, b, w in sites))
    out.append("]\n\n/-- lock program of each function that takes a lock: a temporary guard is released at the end of its statement, a `let`-bound one where\nits block closes -/\ndef lockProgs : List (String × Prog) := [")
    rows = []
    relfile = {(crate, fn): f for crate, f, ln, fn, tbl, bound, _ in sites}
    for (crate, fn), ss in sorted(progs.items()):
        # events in source order: a temporary guard is released where it was taken, a `let`-bound one where its block closes
        # (guards released by the same closing brace go in the reverse order of their declaration)
        evs = []
        for ln, tbl, bound in sorted(ss):
            rel = RELEASE.get((relfile[(crate, fn)], ln), ln)
            evs.append((ln, 0, 0, f".lock .{tbl}"))
            evs.append((rel, 1, -ln, f".unlock .{tbl}"))
        acts = []
        for _, kind, _, a in sorted(evs):
            acts.append(a)
            if kind == 0:
                acts.append(".work")
        rows.append(f'  ("{fn}", [{", ".join(acts)}])')
    out.append(",\n".join(rows))
    out.append("]\n\nend Cte.Gen\n")
    path = os.environ.get("CTEVERIF_GEN_OUT") or os.path.join(VERIF, "lean", "Cte", "Gen", "LockSites.lean")
    txt = "\n".join(out)
    if not os.path.exists(path) or open(path).read() != txt:
        open(path, "w").write(txt)
    return problems, statics, sites


if __name__ == "__main__":
    probs, statics, sites = main()
    for p in probs:
        print("problem:", p)
    for s in statics:
        print("static", s)
    for s in sites:
        print("site", s)
