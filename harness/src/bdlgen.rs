//! Random HULC projects as abstract descriptions, and their BDL text (what HULC writes into the
//! `EntradaGraficaLIDER` section / a legacy `.cte` file).  Shared by C02, C03 and C18.
use crate::rng::Rng;
use serde::Serialize;

#[derive(Serialize, Clone, Debug)]
pub struct PMat {
    pub name: String,
    pub conductivity: f32,
    pub density: f32,
    pub thickness: f32,
    pub resistance: Option<f32>,
}
#[derive(Serialize, Clone, Debug)]
pub struct PLayers {
    pub name: String,
    pub materials: Vec<String>,
    pub thickness: Vec<f32>,
    /// the MATERIAL list is written over several lines
    pub multiline: bool,
}
#[derive(Serialize, Clone, Debug)]
pub struct PGlass {
    pub name: String,
    pub u: f32,
    pub shading_coef: f32,
}
#[derive(Serialize, Clone, Debug)]
pub struct PFrame {
    pub name: String,
    pub u: f32,
    pub abs: f32,
}
#[derive(Serialize, Clone, Debug)]
pub struct PGap {
    pub name: String,
    pub glass: String,
    pub frame: String,
    pub pct: f32,
    pub inf_coef: f32,
}
#[derive(Serialize, Clone, Debug)]
pub struct PDay {
    pub name: String,
    pub values: Vec<f32>,
}
#[derive(Serialize, Clone, Debug)]
pub struct PWeek {
    pub name: String,
    pub days: Vec<String>,
}
#[derive(Serialize, Clone, Debug)]
pub struct PYear {
    pub name: String,
    pub months: Vec<u32>,
    pub days: Vec<u32>,
    pub weeks: Vec<String>,
}
#[derive(Serialize, Clone, Debug)]
pub struct PCond {
    pub name: String,
    pub people_sch: String,
    pub light_sch: String,
    pub equip_sch: String,
    pub heat_sch: String,
    pub cool_sch: String,
}
#[derive(Serialize, Clone, Debug)]
pub struct PWin {
    pub name: String,
    pub gap: String,
    pub x: f32,
    pub y: f32,
    pub w: f32,
    pub h: f32,
    pub setback: f32,
    pub overhang: Option<[f32; 5]>, // a, b, w, d, angle
    /// the same fin on either side of the window: a, b, depth, height
    pub fins: Option<[f32; 4]>,
}
#[derive(Serialize, Clone, Debug)]
pub enum PLoc {
    Vertex(usize),
    Top,
    /// LOCATION = TOP with an explicit AZIMUTH (the outline is still the space's)
    TopAz(f32),
    Bottom,
    /// own polygon: x, y, z, azimuth, tilt, polygon name, points
    Poly { x: f32, y: f32, z: f32, azimuth: f32, tilt: f32, polygon: String, pts: Vec<[f32; 2]> },
}
#[derive(Serialize, Clone, Debug)]
pub struct PWall {
    pub name: String,
    pub btype: &'static str, // EXTERIOR-WALL | INTERIOR-WALL | ROOF | UNDERGROUND-WALL
    pub loc: PLoc,
    pub layers: String,
    pub construction: String,
    pub next_to: Option<String>,
    pub adiabatic: bool,
    pub windows: Vec<PWin>,
}
#[derive(Serialize, Clone, Debug)]
pub struct PSpace {
    pub name: String,
    pub polygon: String,
    pub pts: Vec<[f32; 2]>,
    pub x: f32,
    pub y: f32,
    pub z: f32,
    pub azimuth: f32,
    pub stype: &'static str,
    pub conds: String,
    pub inside_tenv: bool,
    /// what the SPACE block says under HEIGHT (the storey's SPACE-HEIGHT is what counts)
    pub height_attr: f32,
    pub walls: Vec<PWall>,
}
#[derive(Serialize, Clone, Debug)]
pub struct PFloor {
    pub name: String,
    pub z: f32,
    pub height: f32,
    pub multiplier: f32,
    pub spaces: Vec<PSpace>,
}
#[derive(Serialize, Clone, Debug)]
pub enum PShadeGeom {
    Rect { x: f32, y: f32, z: f32, height: f32, width: f32, azimuth: f32, tilt: f32 },
    Verts(Vec<[f32; 3]>),
}
#[derive(Serialize, Clone, Debug)]
pub struct PShade {
    pub name: String,
    pub geom: PShadeGeom,
}
#[derive(Serialize, Clone, Debug)]
pub struct PTb {
    pub name: String,
    pub length: f32,
    pub psi: f32,
}
#[derive(Serialize, Clone, Debug)]
pub struct Proj {
    pub azimuth: f32,
    pub materials: Vec<PMat>,
    pub layers: Vec<PLayers>,
    pub glasses: Vec<PGlass>,
    pub frames: Vec<PFrame>,
    pub gaps: Vec<PGap>,
    pub days: Vec<PDay>,
    pub weeks: Vec<PWeek>,
    pub years: Vec<PYear>,
    pub conds: Vec<PCond>,
    pub floors: Vec<PFloor>,
    pub shades: Vec<PShade>,
    pub tbs: Vec<PTb>,
}

pub struct GenOpts {
    pub rotated_spaces: bool,
    pub polygon_outlines: bool,
}

fn r2(rng: &mut Rng, lo: f64, hi: f64) -> f32 {
    rng.f(lo, hi, 2)
}

/// a counter-clockwise outline: rectangle, L-shape or convex pentagon
fn outline(rng: &mut Rng, w: f32, d: f32, fancy: bool) -> Vec<[f32; 2]> {
    if !fancy {
        return vec![[0.0, 0.0], [w, 0.0], [w, d], [0.0, d]];
    }
    match rng.below(3) {
        0 => vec![[0.0, 0.0], [w, 0.0], [w, d], [0.0, d]],
        1 => {
            let (a, b) = ((w * 0.5 * 100.0).round() / 100.0, (d * 0.5 * 100.0).round() / 100.0);
            vec![[0.0, 0.0], [w, 0.0], [w, b], [a, b], [a, d], [0.0, d]]
        }
        _ => {
            let m = (w * 0.5 * 100.0).round() / 100.0;
            vec![[0.0, 0.0], [w, 0.0], [w, d], [m, d + 1.5], [0.0, d]]
        }
    }
}

pub fn gen_proj(rng: &mut Rng, o: &GenOpts) -> Proj {
    let nmat = rng.range(3, 5);
    let materials: Vec<PMat> = (0..nmat)
        .map(|i| PMat {
            // one name in three has a double blank (the parser normalises blanks in material names)
            // and names with parentheses are common in the catalogue ("Impermeabilizante(Betun fieltro)", "Camara aire horizontal(>15cm)")
            name: if i == 0 && rng.chance(1, 3) { "Material  doble  blanco".to_string() } else if i == 1 && rng.chance(1, 2) { "Impermeabilizante(Betun fieltro)".to_string() } else if i == 2 && rng.chance(1, 2) { "Camara aire horizontal(>15cm)".to_string() } else { format!("Material {}", i + 1) },
            conductivity: r2(rng, 0.03, 2.5),
            density: r2(rng, 20.0, 2500.0),
            thickness: r2(rng, 0.01, 0.3),
            resistance: if i == nmat - 1 && rng.chance(1, 2) { Some(r2(rng, 0.1, 0.3)) } else { None },
        })
        .collect();
    // air gaps are catalogue materials named "Cámara de aire … N cm": the thickness is read from the name's tail
    let mut materials = materials;
    for tail in ["sin ventilar vertical 2 cm", "ligeramente ventilada horizontal 10 cm", "nº1 cm", "de 3 cm²", "sin ventilar 15 cm", "vertical 2.5 cm", "de 12 cm"] {
        if rng.chance(1, 3) {
            materials.push(PMat { name: format!("Cámara de aire {}", tail), conductivity: 0.0, density: 0.0, thickness: 0.02, resistance: Some(r2(rng, 0.1, 0.2)) });
        }
    }
    let nlay = rng.range(2, 4);
    let layers: Vec<PLayers> = (0..nlay)
        .map(|i| {
            let n = rng.range(1, 4);
            let ms: Vec<String> = (0..n).map(|_| rng.pick(&materials).name.clone()).collect();
            PLayers { name: format!("Cerramiento {}", i + 1), thickness: ms.iter().map(|_| r2(rng, 0.01, 0.3)).collect(), multiline: ms.len() > 1 && rng.chance(1, 2), materials: ms }
        })
        .collect();
    // names that differ only in case are different names in BDL
    let mut layers = layers;
    if rng.chance(1, 3) {
        let twin = PLayers { name: layers[0].name.to_uppercase(), materials: layers[0].materials.clone(), thickness: layers[0].thickness.iter().map(|t| t + 0.01).collect(), multiline: false };
        layers.push(twin);
    }
    let glasses: Vec<PGlass> = (0..rng.range(1, 2)).map(|i| PGlass { name: format!("Vidrio {}", i + 1), u: r2(rng, 0.8, 5.7), shading_coef: r2(rng, 0.3, 0.95) }).collect();
    let frames: Vec<PFrame> = (0..rng.range(1, 2)).map(|i| PFrame { name: format!("Marco {}", i + 1), u: r2(rng, 1.0, 5.7), abs: r2(rng, 0.2, 0.9) }).collect();
    let gaps: Vec<PGap> = (0..rng.range(1, 3))
        .map(|i| PGap { name: format!("Hueco {}", i + 1), glass: rng.pick(&glasses).name.clone(), frame: rng.pick(&frames).name.clone(), pct: if rng.chance(1, 4) { 0.0 } else { r2(rng, 5.0, 40.0) }, inf_coef: r2(rng, 3.0, 50.0) })
        .collect();
    // schedules
    let days: Vec<PDay> = (0..3).map(|i| PDay { name: format!("Dia {}", i + 1), values: if i == 2 { vec![r2(rng, 0.0, 1.0)] } else { (0..24).map(|_| r2(rng, 0.0, 1.0)).collect() } }).collect();
    let weeks: Vec<PWeek> = (0..2)
        .map(|i| PWeek { name: format!("Semana {}", i + 1), days: if i == 1 { vec![days[2].name.clone()] } else { (0..7).map(|_| rng.pick(&days).name.clone()).collect() } })
        .collect();
    let years: Vec<PYear> = (0..3)
        .map(|i| {
            if i == 0 {
                PYear { name: format!("Anual {}", i + 1), months: vec![12], days: vec![31], weeks: vec![weeks[0].name.clone()] }
            } else {
                PYear { name: format!("Anual {}", i + 1), months: vec![5, 9, 12], days: vec![31, 30, 31], weeks: (0..3).map(|_| rng.pick(&weeks).name.clone()).collect() }
            }
        })
        .collect();
    let conds: Vec<PCond> = (0..2)
        .map(|i| PCond {
            name: if i == 0 { "Residencial".into() } else { "Terciario 8h".into() },
            people_sch: rng.pick(&years).name.clone(),
            light_sch: rng.pick(&years).name.clone(),
            equip_sch: rng.pick(&years).name.clone(),
            heat_sch: rng.pick(&years).name.clone(),
            cool_sch: rng.pick(&years).name.clone(),
        })
        .collect();
    // building
    let nfloors = rng.range(1, 3);
    let depth = r2(rng, 4.0, 12.0);
    let nsp = rng.range(1, 3);
    let widths: Vec<f32> = (0..nsp).map(|_| r2(rng, 3.0, 10.0)).collect();
    let mut floors = vec![];
    let mut z = 0.0f32;
    for fi in 0..nfloors {
        let h = r2(rng, 2.5, 4.0);
        let fname = format!("P{:02}", fi + 1);
        let mut spaces = vec![];
        let mut x0 = 0.0f32;
        for si in 0..nsp {
            let sname = format!("{}_E{:02}", fname, si + 1);
            let w = widths[si];
            let fancy = o.polygon_outlines && nsp == 1;
            let mut pts = outline(rng, w, depth, fancy);
            // an outline may list a corner twice in a row (a zero-length edge, as drawing tools leave behind): the edges keep their numbers
            if nsp == 1 && rng.chance(1, 2) {
                let dup = pts[1];
                pts.insert(2, dup);
            }
            let rotated = o.rotated_spaces && rng.chance(1, 2);
            let az = if rotated { *rng.pick(&[90.0f32, 180.0, 270.0, 30.0, 215.5]) } else { 0.0 };
            let mut walls = vec![];
            let mut wi = 0;
            for k in 0..pts.len() {
                // the east edge of a rectangle (V2) is shared with the next space: interior wall there, nothing on the
                // neighbour's west edge (V4)
                let shared_next = !fancy && k == 1 && si + 1 < nsp;
                let shared_prev = !fancy && k == 3 && si > 0;
                if shared_prev {
                    continue;
                }
                {
                    let (a, b) = (pts[k], pts[(k + 1) % pts.len()]);
                    if a == b {
                        continue; // no wall on a zero-length edge
                    }
                }
                wi += 1;
                let lay = rng.pick(&layers).name.clone();
                let mut windows = vec![];
                if !shared_next {
                    let edge = {
                        let (a, b) = (pts[k], pts[(k + 1) % pts.len()]);
                        ((b[0] - a[0]).powi(2) + (b[1] - a[1]).powi(2)).sqrt()
                    };
                    for vi in 0..rng.range(0, 2) {
                        let ww = r2(rng, 0.5, 1.5);
                        let hh = r2(rng, 0.5, 1.5);
                        if edge < 2.0 * ww + 1.0 {
                            continue;
                        }
                        windows.push(PWin {
                            name: format!("{}_PE{:03}_V{}", sname, wi, vi + 1),
                            gap: rng.pick(&gaps).name.clone(),
                            x: (0.3 + vi as f32 * (ww + 0.4)).min(edge - ww - 0.1),
                            y: r2(rng, 0.2, 1.0),
                            w: ww,
                            h: hh,
                            setback: if rng.chance(1, 2) { r2(rng, 0.05, 0.4) } else { 0.0 },
                            overhang: if rng.chance(1, 5) { Some([0.1, 0.2, ww + 0.2, r2(rng, 0.3, 1.0), 0.0]) } else { None },
                            fins: if rng.chance(1, 6) { Some([0.1, 0.0, r2(rng, 0.2, 0.8), hh]) } else { None },
                        });
                    }
                }
                walls.push(PWall {
                    name: format!("{}_P{}{:03}", sname, if shared_next { "I" } else { "E" }, wi),
                    btype: if shared_next { "INTERIOR-WALL" } else { "EXTERIOR-WALL" },
                    loc: PLoc::Vertex(k + 1),
                    construction: format!("{}0.60", lay),
                    layers: lay,
                    next_to: if shared_next { Some(format!("{}_E{:02}", fname, si + 2)) } else { None },
                    adiabatic: false,
                    windows,
                });
            }
            // floor element
            let lay = rng.pick(&layers).name.clone();
            if fi == 0 {
                walls.push(PWall { name: format!("{}_FTER001", sname), btype: "UNDERGROUND-WALL", loc: PLoc::Bottom, construction: lay.clone(), layers: lay, next_to: None, adiabatic: false, windows: vec![] });
            }
            // ceiling: roof on the last floor, interior floor slab towards the space above otherwise
            let lay = rng.pick(&layers).name.clone();
            if fi + 1 == nfloors {
                if rng.chance(1, 3) && az == 0.0 {
                    // roof by its own polygon, lying flat at the ceiling level (as HULC writes sloped/flat roofs)
                    walls.push(PWall {
                        name: format!("{}_C001", sname),
                        btype: "ROOF",
                        loc: PLoc::Poly { x: 0.0, y: depth, z: h, azimuth: 270.0, tilt: 0.0, polygon: format!("{}_C001_Pol", sname), pts: vec![[0.0, 0.0], [depth, 0.0], [depth, w], [0.0, w]] },
                        construction: lay.clone(),
                        layers: lay,
                        next_to: None,
                        adiabatic: false,
                        windows: vec![],
                    });
                } else {
                    let loc = if rng.chance(1, 3) { PLoc::TopAz(*rng.pick(&[90.0, 180.0, 270.0, 37.0])) } else { PLoc::Top };
                    walls.push(PWall { name: format!("{}_C001", sname), btype: "ROOF", loc, construction: lay.clone(), layers: lay, next_to: None, adiabatic: false, windows: vec![] });
                }
            } else {
                walls.push(PWall {
                    name: format!("{}_FI001", sname),
                    btype: "INTERIOR-WALL",
                    loc: PLoc::Top,
                    construction: lay.clone(),
                    layers: lay,
                    next_to: Some(format!("P{:02}_E{:02}", fi + 2, si + 1)),
                    adiabatic: false,
                    windows: vec![],
                });
            }
            // the order of the elements of a space carries no meaning: one space in three lists its floor and ceiling first, and one in
            // eight (never the only space of a storey: somebody's partition may name it) is an inner core with no wall on its outline
            let mut walls = walls;
            if rng.chance(1, 3) {
                let k = walls.iter().position(|w| !matches!(w.loc, PLoc::Vertex(_))).unwrap_or(0);
                walls.rotate_left(k);
            }
            if nsp > 1 && si + 1 == nsp && rng.chance(1, 4) {
                walls.retain(|w| !matches!(w.loc, PLoc::Vertex(_)));
            }
            spaces.push(PSpace {
                name: sname.clone(),
                polygon: format!("{}_Pol", sname),
                pts,
                x: x0,
                y: 0.0,
                // a split level: the space floor above / below the storey level
                z: if rng.chance(1, 5) { *rng.pick(&[0.5f32, -0.4, 1.2]) } else { 0.0 },
                azimuth: az,
                stype: if rng.chance(4, 5) { "CONDITIONED" } else { "UNHABITED" },
                conds: rng.pick(&conds).name.clone(),
                inside_tenv: rng.chance(4, 5),
                // one space in four carries a HEIGHT of its own that is not the storey height
                height_attr: if rng.chance(1, 4) { *rng.pick(&[0.0f32, 2.2, 4.5]) } else { h },
                walls,
            });
            x0 += w;
        }
        // a storey may be switched off with a null multiplier (one in eight), or repeated
        let mult = if rng.chance(1, 8) { 0.0 } else if rng.chance(1, 5) { 3.0 } else { 1.0 };
        floors.push(PFloor { name: fname, z, height: h, multiplier: mult, spaces });
        z += h;
    }
    let mut shades = vec![];
    for i in 0..rng.range(0, 2) {
        let geom = if rng.chance(1, 2) {
            PShadeGeom::Rect { x: r2(rng, -5.0, 15.0), y: r2(rng, -10.0, -2.0), z: 0.0, height: r2(rng, 2.0, 8.0), width: r2(rng, 2.0, 8.0), azimuth: *rng.pick(&[0.0, 90.0, 180.0, 45.0]), tilt: *rng.pick(&[90.0, 90.0, 90.0, 0.0, 180.0, 45.0, 135.0]) }
        } else {
            let (x, y, zz, w) = (r2(rng, -5.0, 5.0), r2(rng, -9.0, -2.0), r2(rng, 2.0, 6.0), r2(rng, 2.0, 6.0));
            if rng.chance(1, 3) {
                // a canopy with twelve corners (vertex names V1 … V12 do not sort numerically as text)
                let (rx, ry) = (w, 1.5f32);
                PShadeGeom::Verts((0..12).map(|k| {
                    let a = -(k as f32) * std::f32::consts::PI / 6.0;
                    let rr = if k % 2 == 0 { 1.0 } else { 0.7 };
                    [((x + rx * rr * a.cos()) * 100.0).round() / 100.0, ((y - 3.0 + ry * rr * a.sin()) * 100.0).round() / 100.0, zz]
                }).collect())
            } else {
                PShadeGeom::Verts(vec![[x, y - 1.0, zz], [x, y, zz], [x + w, y, zz], [x + w, y - 1.0, zz]])
            }
        };
        shades.push(PShade { name: format!("Sombra{:03}", i + 1), geom });
    }
    let mut tbs = vec![PTb { name: "UNION_CUBIERTA".into(), length: r2(rng, 5.0, 60.0), psi: r2(rng, 0.05, 1.0) }, PTb { name: "ESQUINA_CONVEXA".into(), length: r2(rng, 5.0, 60.0), psi: r2(rng, 0.05, 0.5) }];
    // user-defined bridges named after the standard ones (only the exact names have a kind), and the other standard names
    for n in ["ESQUINA_CONVEXA_FORJADO_P02", "PILAR_2", "FRENTE_FORJADO", "HUECO_JAMBA", "UNION_SOLERA_PAREDEXT", "ESQUINA_CONVEXA_FORJADO", "Puente propio"] {
        if rng.chance(1, 2) {
            tbs.push(PTb { name: n.into(), length: r2(rng, 1.0, 40.0), psi: r2(rng, 0.05, 0.9) });
        }
    }
    Proj { azimuth: if rng.chance(1, 3) { 0.0 } else { r2(rng, 0.0, 359.9) }, materials, layers, glasses, frames, gaps, days, weeks, years, conds, floors, shades, tbs }
}

fn names_list(v: &[String]) -> String {
    format!("( {})", v.iter().map(|s| format!("\"{}\"", s)).collect::<Vec<_>>().join(", "))
}
fn nums_list<T: std::fmt::Display>(v: &[T]) -> String {
    format!("( {})", v.iter().map(|s| format!("{}", s)).collect::<Vec<_>>().join(", "))
}

/// BDL text of the project, in the order HULC writes it
pub fn print_proj(p: &Proj) -> String {
    let mut s = String::new();
    let mut w = |l: &str| {
        s.push_str(l);
        s.push('\n');
    };
    w("$ +----------------------------------------------------+");
    w("$ |         FICHERO GENERADO POR EL VERIFICADOR        |");
    w("$ +----------------------------------------------------+");
    w("CAMBIO = SI");
    w("CAMBIO-CALENER = NO");
    w("     EEGeneradaAutoconsumida        = \"0\"");
    w("\"DATOS GENERALES\" = GENERAL-DATA");
    w("     TYPE-HOUSING        = \"Unifamiliar\"");
    w("     ZONE                = \"D3\"");
    w("     ..");
    w("TEMPLARY = USER");
    for m in &p.materials {
        w(&format!("\"{}\" = MATERIAL", m.name));
        if let Some(r) = m.resistance {
            w("    TYPE              = RESISTANCE");
            w(&format!("    RESISTANCE        = {}", r));
        } else {
            w("    TYPE              = PROPERTIES");
            w(&format!("    THICKNESS         = {}", m.thickness));
            w(&format!("    CONDUCTIVITY      = {}", m.conductivity));
            w(&format!("    DENSITY           = {}", m.density));
            w("    SPECIFIC-HEAT     = 1000");
            w("    VAPOUR-DIFFUSIVITY-FACTOR = 10");
        }
        w("    GROUP         = \"Otro\"");
        w("    ..");
    }
    for l in &p.layers {
        w(&format!("\"{}\" = LAYERS", l.name));
        w("    GROUP        = \"Fachadas\"");
        if l.multiline {
            w(&format!("    MATERIAL     = ( \"{}\",", l.materials[0]));
            for mname in &l.materials[1..l.materials.len() - 1] {
                w(&format!("                     \"{}\",", mname));
            }
            w(&format!("                     \"{}\")", l.materials[l.materials.len() - 1]));
        } else {
            w(&format!("    MATERIAL     = {}", names_list(&l.materials)));
        }
        w(&format!("    THICKNESS = {}", nums_list(&l.thickness)));
        w("..");
    }
    for g in &p.glasses {
        w(&format!("\"{}\" = GLASS-TYPE", g.name));
        w("     GROUP             = \"Vidrios\"");
        w("     TYPE              = SHADING-COEF");
        w(&format!("     SHADING-COEF      = {}", g.shading_coef));
        w(&format!("     GLASS-CONDUCTANCE = {}", g.u));
        w("    ..");
    }
    for f in &p.frames {
        w(&format!(" \"{}\" = NAME-FRAME", f.name));
        w("      GROUP         = \"Marcos\"");
        w("      FRAME-WIDTH   = 0.1");
        w(&format!("      FRAME-CONDUCT = {}", f.u));
        w(&format!("      FRAME-ABS     = {}", f.abs));
        w("..");
    }
    for g in &p.gaps {
        w(&format!("\"{}\" = GAP", g.name));
        w("     TYPE           = 1");
        w("     GROUP          = \"Huecos\"");
        w("     GROUP-GLASS         = \"Vidrios\"");
        w(&format!("     GLASS-TYPE          = \"{}\"", g.glass));
        w("     GROUP-FRAME       = \"Marcos\"");
        w(&format!("     NAME-FRAME        = \"{}\"", g.frame));
        w(&format!("     PORCENTAGE        = {}", g.pct));
        w(&format!("     INF-COEF          = {}", g.inf_coef));
        w("     porcentajeIncrementoU = 10.000000");
        w("     TransmisividadJulio = 1.000000");
        w("    ..");
    }
    for sh in &p.shades {
        w(&format!("\"{}\" = BUILDING-SHADE", sh.name));
        w("      TRAN     = 0");
        w("      REFL     = 0.7");
        match &sh.geom {
            PShadeGeom::Rect { x, y, z, height, width, azimuth, tilt } => {
                w(&format!("      X = {}", x));
                w(&format!("      Y = {}", y));
                w(&format!("      Z = {}", z));
                w(&format!("      HEIGHT = {}", height));
                w(&format!("      WIDTH = {}", width));
                w(&format!("      AZIMUTH = {}", azimuth));
                w(&format!("      TILT = {}", tilt));
            }
            PShadeGeom::Verts(vs) => {
                for (i, v) in vs.iter().enumerate() {
                    w(&format!("      V{}       =( {}, {}, {} )", i + 1, v[0], v[1], v[2]));
                }
            }
        }
        w("           ..");
    }
    // polygons
    for f in &p.floors {
        for sp in &f.spaces {
            w(&format!("\"{}\" = POLYGON", sp.polygon));
            for (i, v) in sp.pts.iter().enumerate() {
                w(&format!("    V{}   =( {}, {} )", i + 1, v[0], v[1]));
            }
            w("    ..");
            for wl in &sp.walls {
                if let PLoc::Poly { polygon, pts, .. } = &wl.loc {
                    w(&format!("\"{}\" = POLYGON", polygon));
                    for (i, v) in pts.iter().enumerate() {
                        w(&format!("    V{}   =( {}, {} )", i + 1, v[0], v[1]));
                    }
                    w("    ..");
                }
            }
        }
    }
    w("    \"Edificio\" = BUILD-PARAMETERS");
    w("           LATITUDE  = 40.4");
    w(&format!("           AZIMUTH   = {}", p.azimuth));
    w("           D-AISLAMIENTO-PERIMETRAL  = 1.000000");
    w("           RA-AISLAMIENTO-PERIMETRAL = 1.000000");
    w("           ..");
    for (fi, f) in p.floors.iter().enumerate() {
        w(&format!("\"{}\" = FLOOR", f.name));
        if fi % 2 == 0 {
            w("      X             = 0");
            w("      Y             = 0");
        }
        w(&format!("      Z             = {}", f.z));
        w(&format!("      FLOOR-HEIGHT  = {}", f.height));
        w(&format!("      SPACE-HEIGHT  = {}", f.height));
        w(&format!("      MULTIPLIER    = {}", f.multiplier));
        w("      SHAPE         =  POLYGON");
        w(&format!("      PREVIOUS      =  \"{}\"", if fi == 0 { "Ninguna".to_string() } else { p.floors[fi - 1].name.clone() }));
        w("      ..");
        for sp in &f.spaces {
            w(&format!("    \"{}\" = SPACE", sp.name));
            w(&format!("              HEIGHT        = {}", sp.height_attr));
            w("            SHAPE             = POLYGON ");
            w(&format!("            POLYGON           = \"{}\"", sp.polygon));
            if sp.x != 0.0 {
                w(&format!("            X                 = {}", sp.x));
            }
            if sp.y != 0.0 {
                w(&format!("            Y                 = {}", sp.y));
            }
            if sp.z != 0.0 {
                w(&format!("            Z                 = {}", sp.z));
            }
            if sp.azimuth != 0.0 {
                w(&format!("            AZIMUTH           = {}", sp.azimuth));
            }
            w(&format!("            TYPE              = {}", sp.stype));
            w(&format!("            SPACE-TYPE        = \"{}\"", sp.conds));
            w(&format!("            SYSTEM-CONDITIONS = \"{}\"", sp.conds));
            w(&format!("            SPACE-CONDITIONS  = \"{}\"", sp.conds));
            w("            MULTIPLIER        = 1");
            w("            MULTIPLIED        = 0");
            w(&format!("       perteneceALaEnvolventeTermica   = {}", if sp.inside_tenv { "SI" } else { "NO" }));
            w("           POWER     = 4.4");
            w("           VEEI-OBJ  = 7.000000");
            w("           VEEI-REF  = 10.000000");
            w("            ..");
            for wl in &sp.walls {
                w(&format!("            \"{}\" = {}", wl.name, wl.btype));
                if wl.btype == "INTERIOR-WALL" {
                    w(&format!("                  INT-WALL-TYPE = {}", if wl.adiabatic { "ADIABATIC" } else { "STANDARD" }));
                    if let Some(n) = &wl.next_to {
                        w(&format!("                  NEXT-TO       = \"{}\"", n));
                    }
                }
                w(&format!("                  CONSTRUCTION  = \"{}\"  ", wl.construction));
                match &wl.loc {
                    PLoc::Vertex(k) => w(&format!("                  LOCATION      = SPACE-V{}  ", k)),
                    PLoc::Top => w("                  LOCATION      = TOP  "),
                    PLoc::TopAz(a) => {
                        w("                  LOCATION      = TOP  ");
                        w(&format!("                  AZIMUTH       = {}", a));
                    }
                    PLoc::Bottom => w("                  LOCATION      = BOTTOM  "),
                    PLoc::Poly { x, y, z, azimuth, tilt, polygon, .. } => {
                        w(&format!("                  X             = {}", x));
                        w(&format!("                  Y             = {}", y));
                        w(&format!("                  Z             = {}", z));
                        w(&format!("                  AZIMUTH       = {}", azimuth));
                        w(&format!("                  TILT          = {}", tilt));
                        w(&format!("                  POLYGON       = \"{}\"", polygon));
                    }
                }
                w("                        ..");
                w(&format!("                  \"{}\" =  CONSTRUCTION", wl.construction));
                w("                        TYPE   = LAYERS  ");
                w(&format!("                        LAYERS = \"{}\" ", wl.layers));
                w("                        ABSORPTANCE = 0.600000");
                w("                        ..");
                for wn in &wl.windows {
                    w(&format!("                  \"{}\" = WINDOW", wn.name));
                    w(&format!("                        X              = {}", wn.x));
                    w(&format!("                        Y              = {}", wn.y));
                    w(&format!("                        SETBACK        = {}", wn.setback));
                    w(&format!("                        HEIGHT         = {}", wn.h));
                    w(&format!("                        WIDTH          = {}", wn.w));
                    w(&format!("                        GAP            = \"{}\"", wn.gap));
                    w("                        COEFF = ( 1.000000, 1.000000, 1.000000, 1.000000)");
                    if let Some(f) = wn.fins {
                        for side in ["LEFT", "RIGHT"] {
                            w(&format!("                        {side}-FIN-A     = {}", f[0]));
                            w(&format!("                        {side}-FIN-B     = {}", f[1]));
                            w(&format!("                        {side}-FIN-D     = {}", f[2]));
                            w(&format!("                        {side}-FIN-H     = {}", f[3]));
                        }
                    }
                    if let Some(o) = wn.overhang {
                        w(&format!("                        OVERHANG-A     = {}", o[0]));
                        w(&format!("                        OVERHANG-B     = {}", o[1]));
                        w(&format!("                        OVERHANG-W     = {}", o[2]));
                        w(&format!("                        OVERHANG-D     = {}", o[3]));
                        w(&format!("                        OVERHANG-ANGLE = {}", o[4]));
                    }
                    w("                        ..");
                }
            }
        }
    }
    for c in &p.conds {
        w(&format!("\"{}\" = SPACE-CONDITIONS", c.name));
        w(&format!("    PEOPLE-SCHEDULE    = \"{}\"", c.people_sch));
        w("    PEOPLE-HG-LAT      =          45.42");
        w("    PEOPLE-HG-SENS     =          71.79");
        w(&format!("    LIGHTING-SCHEDULE  = \"{}\"", c.light_sch));
        w("    AREA/PERSON        =          33.33");
        w("    LIGHTING-W/AREA    =            4.4");
        w(&format!("    EQUIP-SCHEDULE        = \"{}\"", c.equip_sch));
        w("    EQUIPMENT-W/AREA      =            4.4");
        w("      ..");
        w(&format!("\"{}\" = SYSTEM-CONDITIONS", c.name));
        w(&format!("    HEAT-TEMP-SCH      = \"{}\"", c.heat_sch));
        w(&format!("    COOL-TEMP-SCH      = \"{}\"", c.cool_sch));
        w("    TYPE               = CONDITIONED");
        w("            ..");
    }
    for d in &p.days {
        w(&format!("\"{}\" = DAY-SCHEDULE-PD", d.name));
        w("  TYPE  = FRACTION");
        w(&format!("  VALUES  = {}", nums_list(&d.values)));
        w("  ..");
    }
    for k in &p.weeks {
        w(&format!("\"{}\" = WEEK-SCHEDULE-PD", k.name));
        w("  TYPE  = FRACTION");
        if k.days.len() == 7 {
            w(&format!("  DAY-SCHEDULES = ( \"{}\",", k.days[0]));
            for d in &k.days[1..6] {
                w(&format!("                    \"{}\",", d));
            }
            w(&format!("                    \"{}\")", k.days[6]));
        } else {
            w(&format!("  DAY-SCHEDULES = {}", names_list(&k.days)));
        }
        w("  ..");
    }
    for y in &p.years {
        w(&format!("\"{}\" = SCHEDULE-PD", y.name));
        w("  TYPE  = FRACTION");
        w(&format!("  MONTH = {}", nums_list(&y.months)));
        w(&format!("  DAY   = {}", nums_list(&y.days)));
        w(&format!("  WEEK-SCHEDULES = {}", names_list(&y.weeks)));
        w("  ..");
    }
    for t in &p.tbs {
        w(&format!("\"{}\" = THERMAL-BRIDGE", t.name));
        w(&format!("      LONG-TOTAL = {}", t.length));
        w("      DEFINICION = 1");
        w(&format!("      TTL    = {}", t.psi));
        w("      FRSI        = 0.28");
        w("      ANGLE-MIN   = 0");
        w("      ANGLE-MAX   = 135");
        w("      TYPE        = SLAB");
        w("      PARTITION   = BOTH");
        w("    ..");
    }
    s
}

/// convert a BDL text the way the tools do for the BDL part of a project (no catalogue: generated projects define all they use)
pub fn convert_text(text: &str) -> crate::corpus::Outcome<bemodel::Model> {
    crate::corpus::guarded(|| {
        let bdldata = hulc::bdl::Data::new(text)?;
        let data = hulc::ctehexml::CtehexmlData { bdldata, ..Default::default() };
        bemodel::Model::try_from(&data)
    })
}
