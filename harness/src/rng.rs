//! SplitMix64: every random choice of the harness derives from one seed.
#[derive(Clone)]
pub struct Rng(pub u64);

impl Rng {
    pub fn new(seed: u64) -> Self {
        Rng(seed ^ 0x9E37_79B9_7F4A_7C15)
    }
    pub fn fork(&mut self, tag: u64) -> Rng {
        Rng(self.next() ^ tag.wrapping_mul(0xD6E8_FEB8_6659_FD93))
    }
    pub fn next(&mut self) -> u64 {
        self.0 = self.0.wrapping_add(0x9E37_79B9_7F4A_7C15);
        let mut z = self.0;
        z = (z ^ (z >> 30)).wrapping_mul(0xBF58_476D_1CE4_E5B9);
        z = (z ^ (z >> 27)).wrapping_mul(0x94D0_49BB_1331_11EB);
        z ^ (z >> 31)
    }
    /// uniform in 0..n (n > 0)
    pub fn below(&mut self, n: usize) -> usize {
        (self.next() % (n as u64)) as usize
    }
    pub fn range(&mut self, lo: usize, hi_incl: usize) -> usize {
        lo + self.below(hi_incl - lo + 1)
    }
    pub fn chance(&mut self, num: u32, den: u32) -> bool {
        (self.next() % den as u64) < num as u64
    }
    pub fn unit(&mut self) -> f64 {
        (self.next() >> 11) as f64 / (1u64 << 53) as f64
    }
    /// uniform in [lo, hi], rounded to `dec` decimals (keeps JSON short and values exact-ish)
    pub fn f(&mut self, lo: f64, hi: f64, dec: u32) -> f32 {
        let v = lo + (hi - lo) * self.unit();
        let p = 10f64.powi(dec as i32);
        ((v * p).round() / p) as f32
    }
    pub fn pick<'a, T>(&mut self, xs: &'a [T]) -> &'a T {
        &xs[self.below(xs.len())]
    }
    pub fn uuid(&mut self) -> uuid::Uuid {
        let a = self.next() as u128;
        let b = self.next() as u128;
        uuid::Builder::from_random_bytes(((a << 64) | b).to_be_bytes()).into_uuid()
    }
}
