//! The shipped corpus: model files, HULC projects and legacy LIDER files.
use std::convert::TryFrom;
use std::panic::{catch_unwind, AssertUnwindSafe};
use std::path::{Path, PathBuf};

use bemodel::Model;

pub const REPO: &str = "/repo";

pub fn shipped_model_files() -> Vec<PathBuf> {
    let mut v: Vec<PathBuf> = std::fs::read_dir(format!("{REPO}/bemodel/tests/data"))
        .map(|rd| {
            rd.filter_map(|e| e.ok().map(|e| e.path()))
                .filter(|p| p.extension().map_or(false, |e| e == "json"))
                .collect()
        })
        .unwrap_or_default();
    v.sort();
    v
}

pub fn project_dirs() -> Vec<PathBuf> {
    let mut v: Vec<PathBuf> = std::fs::read_dir(format!("{REPO}/hulc_tests/tests"))
        .map(|rd| {
            rd.filter_map(|e| e.ok().map(|e| e.path()))
                .filter(|p| p.is_dir() && p.file_name().map_or(false, |n| n != "liderdata"))
                .collect()
        })
        .unwrap_or_default();
    v.sort();
    v
}

pub fn lider_files() -> Vec<PathBuf> {
    let mut v: Vec<PathBuf> = std::fs::read_dir(format!("{REPO}/hulc_tests/tests/liderdata"))
        .map(|rd| {
            rd.filter_map(|e| e.ok().map(|e| e.path()))
                .filter(|p| {
                    p.extension()
                        .map_or(false, |e| e.to_string_lossy().to_lowercase() == "cte")
                })
                .collect()
        })
        .unwrap_or_default();
    v.sort();
    v
}

#[derive(Debug)]
pub enum Outcome<T> {
    Ok(T),
    Err(String),
    Panic(String),
}

pub fn guarded<T>(f: impl FnOnce() -> Result<T, anyhow::Error>) -> Outcome<T> {
    match catch_unwind(AssertUnwindSafe(f)) {
        Ok(Ok(v)) => Outcome::Ok(v),
        Ok(Err(e)) => Outcome::Err(format!("{e:#}")),
        Err(p) => {
            let msg = if let Some(s) = p.downcast_ref::<&str>() {
                s.to_string()
            } else if let Some(s) = p.downcast_ref::<String>() {
                s.clone()
            } else {
                "panic".to_string()
            };
            Outcome::Panic(msg)
        }
    }
}

pub fn convert_project(dir: &Path) -> Outcome<Model> {
    let d = dir.to_string_lossy().to_string();
    guarded(|| hulc2model::collect_hulc_data(&d, false, false))
}

/// Legacy LIDER `.cte` file → model, the way `parse_with_catalog` does for `.ctehexml`.
pub fn convert_lider(path: &Path) -> Outcome<Model> {
    guarded(|| {
        let mut bdldata = hulc::bdl::Data::new_from_path(path)?;
        let cat = hulc::ctehexml::load_lider_catalog()?;
        bdldata.db.materials.extend(cat.materials);
        bdldata.db.wallcons.extend(cat.wallcons);
        bdldata.db.wincons.extend(cat.wincons);
        bdldata.db.glasses.extend(cat.glasses);
        bdldata.db.frames.extend(cat.frames);
        let data = hulc::ctehexml::CtehexmlData {
            bdldata,
            ..Default::default()
        };
        Model::try_from(&data)
    })
}

/// All real models: (label, model). Conversion failures are skipped here (C02/C19 look at them).
pub fn real_models(include_lider: bool) -> Vec<(String, Model)> {
    let mut out = vec![];
    for p in shipped_model_files() {
        if let Ok(txt) = std::fs::read_to_string(&p) {
            if let Ok(m) = Model::from_json(&txt) {
                out.push((format!("file:{}", p.file_name().unwrap().to_string_lossy()), m));
            }
        }
    }
    for d in project_dirs() {
        if let Outcome::Ok(m) = convert_project(&d) {
            out.push((format!("project:{}", d.file_name().unwrap().to_string_lossy()), m));
        }
    }
    if include_lider {
        for f in lider_files() {
            if let Outcome::Ok(m) = convert_lider(&f) {
                out.push((format!("lider:{}", f.file_name().unwrap().to_string_lossy()), m));
            }
        }
    }
    out
}
