//! cteverif: correspondence harness. Calls the real code of /repo in-process, writes one
//! case per line (input + what the implementation did) for the Lean driver and the comparator.
mod bdlgen;
mod corpus;
mod genmodel;
mod props;
mod rng;

use std::collections::HashMap;

pub struct Args {
    pub prop: String,
    pub seed: u64,
    pub n: usize,
    pub out: String,
    pub tier: String,
    pub extra: HashMap<String, String>,
}

fn parse_args() -> Args {
    let mut a = std::env::args().skip(1);
    let prop = a.next().unwrap_or_else(|| {
        eprintln!("usage: cteverif <prop> [--seed S] [--n N] [--out DIR] [--tier quick|thorough] [--key value]...");
        std::process::exit(2)
    });
    let mut args = Args {
        prop,
        seed: 1,
        n: 100,
        out: ".".into(),
        tier: "quick".into(),
        extra: HashMap::new(),
    };
    while let Some(k) = a.next() {
        let v = a.next().unwrap_or_default();
        match k.as_str() {
            "--seed" => args.seed = v.parse().unwrap_or(1),
            "--n" => args.n = v.parse().unwrap_or(100),
            "--out" => args.out = v,
            "--tier" => args.tier = v,
            _ => {
                args.extra.insert(k.trim_start_matches("--").to_string(), v);
            }
        }
    }
    args
}

fn main() {
    // panics are observations, not noise: keep the default hook quiet
    std::panic::set_hook(Box::new(|_| {}));
    let args = parse_args();
    std::fs::create_dir_all(&args.out).ok();
    let rc = match args.prop.as_str() {
        "c01" => props::c01::run(&args),
        "c04" => props::c04::run(&args),
        "c05" => props::c05::run(&args),
        #[cfg(cteenergymodel_verif)]
        "c05trace" => props::c05trace::run(&args),
        "c11" => props::c11::run(&args),
        "c12" => props::c12::run(&args),
        "c13" => props::c13::run(&args),
        "c14" => props::c14::run(&args),
        "c14-explain" => props::c14::explain(&args),
        "c15" => props::c15::run(&args),
        "c16" => props::c16::run(&args),
        "c17" => props::c17::run(&args),
        "c18" => props::c18::run(&args),
        "c02" => props::c02::run(&args),
        "c03" => props::c03::run(&args),
        "c19" => props::c19::run(&args),
        "c20" => props::c20::run(&args),
        "ind" => props::ind::run(&args),
        "dump" => props::dump::run(&args),
        other => {
            eprintln!("unknown property harness {other}");
            2
        }
    };
    std::process::exit(rc);
}
