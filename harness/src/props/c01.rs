//! C01: the export tool writes exactly the model JSON to standard output (process-level runs).
use crate::corpus::{guarded, project_dirs, Outcome};
use crate::props::CaseWriter;
use crate::Args;
use bemodel::Model;
use serde_json::{json, Value};
use std::path::{Path, PathBuf};
use std::process::Command;

fn copy_dir(src: &Path, dst: &Path, skip: &[&str]) {
    std::fs::create_dir_all(dst).ok();
    if let Ok(rd) = std::fs::read_dir(src) {
        for e in rd.flatten() {
            let p = e.path();
            let name = p.file_name().unwrap().to_string_lossy().to_string();
            if skip.iter().any(|s| name.eq_ignore_ascii_case(s)) {
                continue;
            }
            if p.is_file() {
                std::fs::copy(&p, dst.join(&name)).ok();
            }
        }
    }
}

fn lib_json(dir: &str, extra: bool) -> Outcome<String> {
    let d = dir.to_string();
    guarded(move || {
        let m = hulc2model::collect_hulc_data(&d, extra, extra)?;
        m.as_json()
    })
}

fn json_docs(bytes: &[u8]) -> (usize, Option<Value>) {
    // how many JSON documents does the text hold, and the first one
    let txt = String::from_utf8_lossy(bytes);
    let mut n = 0;
    let mut first = None;
    let de = serde_json::Deserializer::from_str(&txt).into_iter::<Value>();
    for v in de {
        match v {
            Ok(v) => {
                n += 1;
                if first.is_none() {
                    first = Some(v);
                }
            }
            Err(_) => return (usize::MAX, first),
        }
    }
    (n, first)
}

fn run_tool(cw: &mut CaseWriter, bindir: &str, label: &str, dir: &str, extra: bool) {
    let mut cmd = Command::new(format!("{bindir}/hulc2model"));
    if extra {
        cmd.arg("--use-extra");
    }
    cmd.arg(dir);
    let out = match cmd.output() {
        Ok(o) => o,
        Err(e) => {
            cw.write(json!({"op": "noop", "label": label, "kind": "tool", "impl": {"spawn_error": format!("{e}")}}));
            return;
        }
    };
    let lib = lib_json(dir, extra);
    let (ndocs, first) = json_docs(&out.stdout);
    let (lib_ok, expected) = match &lib {
        Outcome::Ok(j) => (true, Some(format!("{j}\n"))),
        _ => (false, None),
    };
    let exact = expected.as_ref().map(|e| e.as_bytes() == out.stdout.as_slice());
    let same_model = match (&lib, &first) {
        (Outcome::Ok(j), Some(v)) => Some(serde_json::from_str::<Value>(j).ok().as_ref() == Some(v)),
        _ => None,
    };
    let loads = first.as_ref().map(|v| serde_json::from_value::<Model>(v.clone()).is_ok());
    // where does the JSON start, when stdout has something before it
    let json_offset = out.stdout.iter().position(|b| *b == b'{');
    let prefix: String = String::from_utf8_lossy(&out.stdout[..json_offset.unwrap_or(0).min(120)]).to_string();
    let mut argv = vec!["hulc2model".to_string()];
    if extra {
        argv.push("--use-extra".into());
    }
    argv.push(dir.to_string());
    cw.write(json!({"op": "cli", "label": label, "kind": "tool", "dir": dir, "extra": extra, "args": argv, "lib_ok": lib_ok,
        "impl": {"status": out.status.code(), "stdout_len": out.stdout.len(), "library_converts": lib_ok,
                 "library_error": match &lib { Outcome::Err(e) => Some(e.clone()), Outcome::Panic(p) => Some(format!("panic: {p}")), _ => None },
                 "stdout_is_exactly_library_json": exact, "json_documents_on_stdout": if ndocs == usize::MAX { json!("not-json") } else { json!(ndocs) },
                 "first_document_equals_library_model": same_model, "first_document_loads_as_model": loads,
                 "bytes_before_json": json_offset, "stdout_prefix": prefix}}));
}

/// `fix_ecdata_from_extra` on a project directory, with the inputs it reads laid out for the Lean model (`Extra.lean`):
/// the walls and windows of the converted model with the computed U / F_sh;obst the indicators report, and the parsed result files
fn fix_extra_case(cw: &mut CaseWriter, label: &str, dir: &str, use_kyg: bool, use_tbl: bool) {
    use bemodel::utils::fround2;
    let d = dir.to_string();
    let r = guarded(move || {
        let f = hulc::ctehexml::find_ctehexml(&d)?.ok_or_else(|| anyhow::format_err!("no project"))?;
        let data = hulc::ctehexml::parse_with_catalog_from_path(&f)?;
        let mut model = Model::try_from(&data)?;
        let ind = model.energy_indicators();
        let kygpath = if use_kyg { hulc::kyg::find_kyg(&d)? } else { None };
        let tblpath = if use_tbl { hulc::tbl::find_tbl(&d)? } else { None };
        let walls: Vec<Value> = model.walls.iter().map(|w| json!({"name": w.name, "id": w.id.to_string(),
            "interior": w.bounds == bemodel::BoundaryType::INTERIOR,
            "computed_u": fround2(ind.props.walls.get(&w.id).and_then(|p| p.u_value).unwrap_or(0.0))})).collect();
        let windows: Vec<Value> = model.windows.iter().map(|w| json!({"name": w.name, "id": w.id.to_string(),
            "computed_fsh": ind.props.windows.get(&w.id).and_then(|p| p.f_shobst)})).collect();
        let kyg = match &kygpath {
            Some(p) => {
                let k = hulc::kyg::parse_from_path(p)?;
                json!({"walls": k.walls.iter().map(|(n, w)| json!([n, fround2(w.u)])).collect::<Vec<_>>(),
                       "windows": k.windows.iter().map(|(n, w)| json!([n, fround2(w.fshobst)])).collect::<Vec<_>>()})
            }
            None => Value::Null,
        };
        let tbl = match &tblpath {
            Some(p) => {
                let t = hulc::tbl::parse(p)?;
                Value::Array(t.elements.iter().map(|(n, e)| json!([n, fround2(e.u)])).collect())
            }
            None => Value::Null,
        };
        let before_w = model.overrides.walls.len();
        let res = hulc2model::fix_ecdata_from_extra(&mut model, &kygpath, &tblpath);
        let imp = match res {
            Ok(()) => json!({"outcome": "ok", "overrides_before": before_w,
                "wall_overrides": model.overrides.walls.iter().filter_map(|(id, o)| o.u_value.map(|u| json!([id.to_string(), u]))).collect::<Vec<_>>(),
                "win_overrides": model.overrides.windows.iter().filter_map(|(id, o)| o.f_shobst.map(|u| json!([id.to_string(), u]))).collect::<Vec<_>>(),
                "extra": model.extra.as_ref().map(|e| e.iter().map(|x| x.name.clone()).collect::<Vec<_>>())}),
            Err(e) => json!({"outcome": "err", "msg": format!("{e:#}").chars().take(120).collect::<String>()}),
        };
        Ok(serde_json::to_string(&json!({"walls": walls, "windows": windows, "kyg": kyg, "tbl": tbl, "impl": imp}))?)
    });
    match r {
        Outcome::Ok(t) => {
            let mut v: Value = serde_json::from_str(&t).unwrap_or(Value::Null);
            v["op"] = json!("fixextra");
            v["kind"] = json!("fixextra");
            v["label"] = json!(label);
            cw.write(v);
        }
        Outcome::Err(e) => cw.write(json!({"op": "noop", "kind": "fixextra", "label": label, "impl": {"outcome": "not-applicable", "msg": e}})),
        Outcome::Panic(p) => cw.write(json!({"op": "noop", "kind": "fixextra", "label": label, "impl": {"outcome": "panic", "msg": p}})),
    }
}

fn run_thor(cw: &mut CaseWriter, bindir: &str, label: &str, file: &Path, tmp: &Path) {
    let mut outs = vec![];
    let mut runs: Vec<(usize, usize)> = vec![];
    for (k, flags) in [vec![], vec!["-v"], vec!["-v", "-v"]].iter().enumerate() {
        let outp = tmp.join(format!("thor-{}-{}.json", label.replace([':', '/'], "_"), k));
        // the file named with -o may exist already: longer than what is written (k = 1) or shorter (k = 2)
        match k {
            1 => std::fs::write(&outp, vec![b'#'; 8 << 20]).ok(),
            2 => std::fs::write(&outp, b"{\"old\": true}").ok(),
            _ => None,
        };
        let mut cmd = Command::new(format!("{bindir}/thor"));
        cmd.arg(file).arg("-o").arg(&outp);
        for f in flags {
            cmd.arg(f);
        }
        let o = cmd.output();
        let content = std::fs::read_to_string(&outp).ok();
        runs.push((k, o.as_ref().ok().map(|o| o.stdout.len()).unwrap_or(0)));
        outs.push((o.ok().and_then(|o| o.status.code()), content));
        std::fs::remove_file(&outp).ok();
    }
    let f2 = file.to_path_buf();
    let lib = guarded(move || {
        let data = hulc::ctehexml::parse_with_catalog_from_path(&f2)?;
        Model::try_from(&data)?.as_json()
    });
    let lib_txt = match &lib {
        Outcome::Ok(t) => Some(t.clone()),
        _ => None,
    };
    // the same model as hulc2model prints, up to the fields only hulc2model adds
    let dir = file.parent().unwrap().to_string_lossy().to_string();
    let tool_model = match lib_json(&dir, false) {
        Outcome::Ok(j) => serde_json::from_str::<Value>(&j).ok(),
        _ => None,
    };
    let strip = |mut v: Value| {
        if let Value::Object(o) = &mut v {
            o.remove("extra");
            o.remove("overrides");
        }
        v
    };
    // one case per run for the automaton of thor's main: verbosity k, what the -o file held before, what it holds after
    for (k, stdout_len) in &runs {
        let existing = match k { 1 => Some("#".repeat(64)), 2 => Some("{\"old\": true}".to_string()), _ => None };
        cw.write(json!({"op": "thor", "label": format!("{label}:v{k}"), "kind": "thor-run", "v": k, "existing": existing, "lib_ok": lib_txt.is_some(),
            "impl": {"status": outs[*k].0, "library_converts": lib_txt.is_some(),
                     "file": match (&outs[*k].1, &lib_txt) { (Some(c), Some(t)) if c == t => json!("model-json"), (Some(_), _) => json!("other"), (None, _) => Value::Null },
                     "stdout_nonempty": *stdout_len > 0}}));
    }
    let thor_model = outs[0].1.as_ref().and_then(|t| serde_json::from_str::<Value>(t).ok());
    cw.write(json!({"op": "noop", "label": label, "kind": "thor", "file": file.to_string_lossy(),
        "impl": {"statuses": outs.iter().map(|o| o.0).collect::<Vec<_>>(),
                 "file_written": outs.iter().map(|o| o.1.is_some()).collect::<Vec<_>>(),
                 "file_equals_library_json": lib_txt.as_ref().map(|t| outs.iter().all(|o| o.1.as_ref() == Some(t))),
                 "independent_of_verbosity": outs.iter().all(|o| o.1 == outs[0].1),
                 "same_model_as_hulc2model": match (thor_model, tool_model) { (Some(a), Some(b)) => Some(strip(a) == strip(b)), _ => None },
                 "library_converts": lib_txt.is_some()}}));
}

pub fn run(args: &Args) -> i32 {
    let mut cw = CaseWriter::new(&args.out, "cases.jsonl");
    let bindir = args.extra.get("bindir").cloned().unwrap_or_else(|| "/verif/.cache/target-repo/debug".into());
    let tmp = PathBuf::from(&args.out).join("tmp");
    std::fs::remove_dir_all(&tmp).ok();
    std::fs::create_dir_all(&tmp).ok();
    for d in project_dirs() {
        let name = d.file_name().unwrap().to_string_lossy().to_string();
        let ds = d.to_string_lossy().to_string();
        for extra in [false, true] {
            run_tool(&mut cw, &bindir, &format!("project:{name}:{}", if extra { "extra" } else { "default" }), &ds, extra);
        }
        for (tag, k, t) in [("kyg+tbl", true, true), ("kyg", true, false), ("tbl", false, true), ("none", false, false)] {
            fix_extra_case(&mut cw, &format!("fixextra:{name}:{tag}"), &ds, k, t);
        }
        if let Ok(Some(f)) = hulc::ctehexml::find_ctehexml(&ds) {
            run_thor(&mut cw, &bindir, &format!("thor:{name}"), &f, &tmp);
        }
        // variants of the directory holding exactly one of the two result files
        let has_kyg = std::fs::read_dir(&d).map(|rd| rd.flatten().any(|e| e.file_name().to_string_lossy().eq_ignore_ascii_case("KyGananciasSolares.txt"))).unwrap_or(false);
        let has_tbl = std::fs::read_dir(&d).map(|rd| rd.flatten().any(|e| e.file_name().to_string_lossy().eq_ignore_ascii_case("NewBDL_O.tbl"))).unwrap_or(false);
        if has_kyg && has_tbl {
            for (tag, skip) in [("only-kyg", "NewBDL_O.tbl"), ("only-tbl", "KyGananciasSolares.txt")] {
                let dst = tmp.join(format!("{name}-{tag}"));
                copy_dir(&d, &dst, &[skip]);
                run_tool(&mut cw, &bindir, &format!("project:{name}:{tag}:extra"), &dst.to_string_lossy(), true);
            }
        }
    }
    // projects with unusual but convertible values: paths that make the tools talk (checker warnings, defaults, log lines)
    for d in project_dirs() {
        let name = d.file_name().unwrap().to_string_lossy().to_string();
        if !["cubo", "casoA", "ejemploviv_unif"].contains(&name.as_str()) {
            continue;
        }
        let edits: [(&str, &str, &str); 4] = [
            ("negative-tb-length", "LONG-TOTAL = ", "LONG-TOTAL = -"),
            ("zero-setback", "SETBACK        = ", "SETBACK        = 0"),
            ("tiny-window", "WIDTH          = ", "WIDTH          = 0.00"),
            ("odd-absorptance", "ABSORPTANCE = ", "ABSORPTANCE = 7"),
        ];
        for (tag, from, to) in edits {
            let dst = tmp.join(format!("{name}-{tag}"));
            copy_dir(&d, &dst, &[]);
            if let Ok(Some(f)) = hulc::ctehexml::find_ctehexml(&dst.to_string_lossy()) {
                if let Ok(bytes) = std::fs::read(&f) {
                    let text: String = bytes.iter().map(|b| *b as char).collect();
                    // every occurrence after the first 3 (keeps the file mostly intact), at most 5 of them
                    let mut out = String::new();
                    let mut rest = text.as_str();
                    let mut k = 0;
                    while let Some(pos) = rest.find(from) {
                        out.push_str(&rest[..pos]);
                        k += 1;
                        out.push_str(if (4..=8).contains(&k) { to } else { from });
                        rest = &rest[pos + from.len()..];
                    }
                    out.push_str(rest);
                    if k >= 4 {
                        let b2: Vec<u8> = out.chars().map(|c| c as u32 as u8).collect();
                        if std::fs::write(&f, b2).is_ok() {
                            for extra in [false, true] {
                                run_tool(&mut cw, &bindir, &format!("project:{name}:{tag}:{}", if extra { "extra" } else { "default" }), &dst.to_string_lossy(), extra);
                            }
                        }
                    }
                }
            }
        }
    }
    // project meta data a user types: long names, accented characters at every byte offset of the decoded text (both parities),
    // an empty name, markup characters
    if let Some(d) = project_dirs().into_iter().find(|d| d.file_name().map(|n| n == "cubo").unwrap_or(false)) {
        let names: Vec<(&str, String)> = vec![
            ("accents-even", "ó".repeat(70)),
            ("accents-odd", format!("a{}", "ñ".repeat(70))),
            ("long-sentence", "Edificio de viviendas en la calle Alcalá nº 40, 2ª fase: rehabilitación energética integral del bloque y urbanización".to_string()),
            ("empty", String::new()),
            ("markup", "Bloque &amp; anexo &lt;B&gt; \"comillas\" 'simples'".to_string()),
        ];
        for (tag, pname) in names {
            let dst = tmp.join(format!("cubo-name-{tag}"));
            copy_dir(&d, &dst, &[]);
            if let Ok(Some(f)) = hulc::ctehexml::find_ctehexml(&dst.to_string_lossy()) {
                if let Ok(text) = std::fs::read_to_string(&f) {
                    if let (Some(a), Some(b)) = (text.find("<nomPro>"), text.find("</nomPro>")) {
                        let out = format!("{}<nomPro>{}{}", &text[..a], pname, &text[b..]);
                        if std::fs::write(&f, out).is_ok() {
                            for extra in [false, true] {
                                run_tool(&mut cw, &bindir, &format!("project:cubo:name-{tag}:{}", if extra { "extra" } else { "default" }), &dst.to_string_lossy(), extra);
                            }
                        }
                    }
                }
            }
        }
    }
    // result files that agree with the computed U of every wall: nothing to report, nothing to override
    for d in project_dirs().into_iter().filter(|d| ["cubo", "casoA", "casoC"].contains(&d.file_name().unwrap().to_string_lossy().as_ref())) {
        let name = d.file_name().unwrap().to_string_lossy().to_string();
        let dst = tmp.join(format!("{name}-agreeing"));
        copy_dir(&d, &dst, &[]);
        let find = |what: &str| std::fs::read_dir(&dst).ok().and_then(|rd| rd.flatten().map(|e| e.path()).find(|p| p.file_name().map_or(false, |n| n.to_string_lossy().eq_ignore_ascii_case(what))));
        let (Some(kyg), Some(tbl)) = (find("KyGananciasSolares.txt"), find("NewBDL_O.tbl")) else { continue };
        let latin = |p: &Path| -> String { std::fs::read(p).unwrap_or_default().iter().map(|b| *b as char).collect() };
        let unlatin = |t: &str| -> Vec<u8> { t.chars().map(|c| c as u32 as u8).collect() };
        let mut agreed = false;
        for _round in 0..4 {
            let ds = dst.to_string_lossy().to_string();
            let extra = match guarded(move || hulc2model::collect_hulc_data(&ds, true, true).map(|m| m.extra.unwrap_or_default())) {
                Outcome::Ok(e) => e,
                _ => break,
            };
            if extra.is_empty() {
                agreed = true;
                break;
            }
            let mut ktext = latin(&kyg);
            let mut ttext = latin(&tbl);
            for e in &extra {
                let u = format!("{:.2}", e.computed_u);
                if e.bounds == bemodel::BoundaryType::INTERIOR {
                    let lines: Vec<String> = ttext.split("\r\n").map(|l| l.to_string()).collect();
                    let mut out = lines.clone();
                    if let Some(i) = lines.iter().position(|l| l.trim() == format!("\"{}\"", e.name)) {
                        if let Some(vals) = lines.get(i + 1) {
                            let mut toks: Vec<String> = vals.split_whitespace().map(|t| t.to_string()).collect();
                            if toks.len() > 1 {
                                toks[1] = u.clone();
                                out[i + 1] = toks.join(" ");
                            }
                        }
                    }
                    ttext = out.join("\r\n");
                } else {
                    let prefix = format!("Muro;{};", e.name);
                    let mut found = false;
                    let mut lines: Vec<String> = ktext.split("\r\n").map(|l| l.to_string()).collect();
                    for l in lines.iter_mut() {
                        if l.starts_with(&prefix) {
                            let mut f: Vec<String> = l.split(';').map(|x| x.to_string()).collect();
                            if f.len() > 3 {
                                f[3] = u.clone();
                                *l = f.join(";");
                                found = true;
                            }
                        }
                    }
                    if !found {
                        if let Some(i) = lines.iter().rposition(|l| l.starts_with("Muro;")) {
                            lines.insert(i + 1, format!("Muro;{};1.00;{};1.00", e.name, u));
                        }
                    }
                    ktext = lines.join("\r\n");
                }
            }
            std::fs::write(&kyg, unlatin(&ktext)).ok();
            std::fs::write(&tbl, unlatin(&ttext)).ok();
        }
        if agreed {
            fix_extra_case(&mut cw, &format!("fixextra:{name}:agreeing-results"), &dst.to_string_lossy(), true, true);
            run_tool(&mut cw, &bindir, &format!("project:{name}:agreeing-results:extra"), &dst.to_string_lossy(), true);
        } else {
            cw.write(json!({"op": "noop", "label": format!("project:{name}:agreeing-results:not-built"), "kind": "note", "impl": {"library_converts": false}}));
        }
    }
    // synthetic projects: generated BDL inside the XML envelope of a shipped project
    let thorough = args.tier == "thorough";
    if let Some(template) = project_dirs().into_iter().find(|d| d.file_name().map(|n| n == "cubo").unwrap_or(false)) {
        if let Ok(Some(f)) = hulc::ctehexml::find_ctehexml(&template.to_string_lossy()) {
            if let Ok(xml) = std::fs::read_to_string(&f) {
                if let (Some(a), Some(b)) = (xml.find("<EntradaGraficaLIDER>"), xml.find("</EntradaGraficaLIDER>")) {
                    let mut rng = crate::rng::Rng::new(args.seed ^ 0xC01);
                    for i in 0..(if thorough { 40 } else { 6 }) {
                        let p = crate::bdlgen::gen_proj(&mut rng, &crate::bdlgen::GenOpts { rotated_spaces: i % 3 == 2, polygon_outlines: i % 2 == 1 });
                        let bdl = crate::bdlgen::print_proj(&p).replace('&', "&amp;").replace('<', "&lt;").replace('>', "&gt;");
                        let text = format!("{}<EntradaGraficaLIDER>\n{}\n{}", &xml[..a], bdl, &xml[b..]);
                        let dst = tmp.join(format!("synthetic{i}"));
                        std::fs::create_dir_all(&dst).ok();
                        let file = dst.join(format!("synthetic{i}.ctehexml"));
                        if std::fs::write(&file, text).is_ok() {
                            for extra in [false, true] {
                                run_tool(&mut cw, &bindir, &format!("synthetic{i}:{}", if extra { "extra" } else { "default" }), &dst.to_string_lossy(), extra);
                            }
                            run_thor(&mut cw, &bindir, &format!("thor:synthetic{i}"), &file, &tmp);
                        }
                    }
                }
            }
        }
    }
    // directories without a project
    // no argument at all: help on stderr, status 1
    if let Ok(o) = Command::new(format!("{bindir}/hulc2model")).output() {
        cw.write(json!({"op": "cli", "label": "no-arguments", "kind": "tool-noargs", "args": ["hulc2model"], "lib_ok": false,
            "impl": {"status": o.status.code(), "stdout_len": o.stdout.len(), "library_converts": false}}));
    }
    let empty = tmp.join("empty");
    std::fs::create_dir_all(&empty).ok();
    run_tool(&mut cw, &bindir, "empty-dir:default", &empty.to_string_lossy(), false);
    run_tool(&mut cw, &bindir, "empty-dir:extra", &empty.to_string_lossy(), true);
    let noproj = tmp.join("no-project");
    std::fs::create_dir_all(&noproj).ok();
    std::fs::write(noproj.join("notas.txt"), "sin proyecto").ok();
    run_tool(&mut cw, &bindir, "no-project-dir:default", &noproj.to_string_lossy(), false);
    run_tool(&mut cw, &bindir, "missing-dir:default", &tmp.join("no-existe").to_string_lossy(), false);
    cw.finish();
    std::fs::remove_dir_all(&tmp).ok();
    0
}
