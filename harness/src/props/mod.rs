pub mod c15;
pub mod c01;
pub mod c02;
pub mod c03;
pub mod c04;
pub mod c05;
#[cfg(cteenergymodel_verif)]
pub mod c05trace;
pub mod c11;
pub mod c12;
pub mod c13;
pub mod c14;
pub mod c16;
pub mod c17;
pub mod c18;
pub mod c19;
pub mod c20;
pub mod dump;
pub mod ind;

use serde_json::Value;
use std::io::Write;

/// JSON-lines writer for cases
pub struct CaseWriter {
    f: std::io::BufWriter<std::fs::File>,
    pub n: usize,
}

impl CaseWriter {
    pub fn new(dir: &str, name: &str) -> Self {
        let f = std::fs::File::create(format!("{dir}/{name}")).expect("create case file");
        CaseWriter {
            f: std::io::BufWriter::new(f),
            n: 0,
        }
    }
    pub fn write(&mut self, mut v: Value) {
        v["id"] = Value::from(self.n);
        serde_json::to_writer(&mut self.f, &v).unwrap();
        self.f.write_all(b"\n").unwrap();
        self.n += 1;
    }
    pub fn finish(mut self) {
        self.f.flush().unwrap();
    }
}

pub fn model_value(m: &bemodel::Model) -> Value {
    serde_json::to_value(m).expect("model to json")
}
