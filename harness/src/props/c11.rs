//! C11: areas, volumes, compactness, envelope membership, ventilation rate, scaling, and the angle
//! classifiers over every f32 in [-720, 1080].
use crate::genmodel::gen_model;
use crate::props::ind::{observe, profile};
use crate::props::{model_value, CaseWriter};
use crate::rng::Rng;
use crate::Args;
use bemodel::{Model, Orientation, Tilt};
use serde_json::{json, Value};

/// every length of the model multiplied by `s`
pub fn scale_model(m: &Model, s: f32) -> Model {
    let mut m = m.clone();
    for sp in m.spaces.iter_mut() {
        sp.height *= s;
        sp.z *= s;
    }
    for w in m.walls.iter_mut() {
        for p in w.geometry.polygon.iter_mut() {
            p.x *= s;
            p.y *= s;
        }
        if let Some(p) = w.geometry.position.as_mut() {
            p.x *= s;
            p.y *= s;
            p.z *= s;
        }
    }
    for w in m.windows.iter_mut() {
        w.geometry.width *= s;
        w.geometry.height *= s;
        w.geometry.setback *= s;
        if let Some(p) = w.geometry.position.as_mut() {
            p.x *= s;
            p.y *= s;
        }
    }
    for sh in m.shades.iter_mut() {
        for p in sh.geometry.polygon.iter_mut() {
            p.x *= s;
            p.y *= s;
        }
        if let Some(p) = sh.geometry.position.as_mut() {
            p.x *= s;
            p.y *= s;
            p.z *= s;
        }
    }
    for c in m.cons.wallcons.iter_mut() {
        for l in c.layers.iter_mut() {
            l.e *= s;
        }
    }
    for tb in m.thermal_bridges.iter_mut() {
        tb.l *= s;
    }
    m
}

fn globals(m: &Model) -> Value {
    match crate::corpus::guarded(|| {
        let ind = m.energy_indicators();
        let exposed: f32 = ind
            .props
            .walls
            .values()
            .filter(|w| {
                w.is_tenv
                    && (w.bounds == bemodel::BoundaryType::EXTERIOR || w.bounds == bemodel::BoundaryType::GROUND)
            })
            .map(|w| w.area_gross * w.multiplier)
            .sum();
        Ok(json!({"a_ref": ind.area_ref, "vol_env_gross": ind.vol_env_gross, "vol_env_net": ind.vol_env_net,
                  "compactness": ind.compactness, "exposed": exposed}))
    }) {
        crate::corpus::Outcome::Ok(v) => v,
        _ => Value::Null,
    }
}

/// exact reference classes of an angle (f64 arithmetic is exact here: |x| < 2^11, 24-bit mantissa)
fn reduce(x: f64) -> f64 {
    x - (x / 360.0).floor() * 360.0
}
/// the reduced angle rounded to f32: what any f32 computation of `x mod 360` can at best return
fn reduce_f32(x: f64) -> f64 {
    let r = (reduce(x) as f32) as f64;
    if r >= 360.0 { 0.0 } else { r }
}
fn ref_tilt(x: f64) -> u8 {
    let t = reduce(x);
    if t <= 60.0 {
        1
    } else if t < 120.0 {
        2
    } else if t < 240.0 {
        0
    } else if t < 300.0 {
        2
    } else {
        1
    }
}
fn ref_orient(x: f64) -> u8 {
    let a = reduce(x);
    if a < 18.0 {
        4
    } else if a < 69.0 {
        3
    } else if a < 120.0 {
        2
    } else if a < 157.5 {
        1
    } else if a < 202.5 {
        0
    } else if a < 240.0 {
        7
    } else if a < 291.0 {
        6
    } else if a < 342.0 {
        5
    } else {
        4
    }
}
fn tilt_code(t: Tilt) -> u8 {
    match t {
        Tilt::BOTTOM => 0,
        Tilt::TOP => 1,
        Tilt::SIDE => 2,
    }
}
fn hulc_tilt_code(t: hulc::bdl::Tilt) -> u8 {
    match t {
        hulc::bdl::Tilt::BOTTOM => 0,
        hulc::bdl::Tilt::TOP => 1,
        hulc::bdl::Tilt::SIDE => 2,
    }
}
fn orient_code(o: Orientation) -> u8 {
    match o {
        Orientation::N => 0,
        Orientation::NE => 1,
        Orientation::E => 2,
        Orientation::SE => 3,
        Orientation::S => 4,
        Orientation::SW => 5,
        Orientation::W => 6,
        Orientation::NW => 7,
        Orientation::HZ => 8,
    }
}

/// all finite f32 in [lo, hi] as bit patterns (two monotone ranges: negative and non-negative)
fn scan_range(lo: f32, hi: f32, threads: usize, f: impl Fn(f32) -> Option<String> + Sync) -> (u64, Vec<String>) {
    // negatives: bits 0x8000_0001 ..= (-lo).to_bits()|sign ; non-negatives: 0 ..= hi.to_bits()
    let mut ranges: Vec<(u32, u32)> = vec![];
    if lo < 0.0 {
        ranges.push((0x8000_0000, lo.to_bits()));
    }
    if hi >= 0.0 {
        ranges.push((0, hi.to_bits()));
    }
    let total = std::sync::atomic::AtomicU64::new(0);
    let bad = std::sync::Mutex::new(Vec::<String>::new());
    std::thread::scope(|s| {
        for (a, b) in ranges.iter().copied() {
            let span = (b - a) as u64 + 1;
            let per = (span + threads as u64 - 1) / threads as u64;
            for k in 0..threads as u64 {
                let (total, bad, f) = (&total, &bad, &f);
                s.spawn(move || {
                    let start = a as u64 + k * per;
                    let end = (start + per).min(a as u64 + span);
                    let mut n = 0u64;
                    let mut mine = vec![];
                    let mut bits = start;
                    while bits < end {
                        let x = f32::from_bits(bits as u32);
                        n += 1;
                        if let Some(msg) = f(x) {
                            if mine.len() < 3 {
                                mine.push(msg);
                            }
                        }
                        bits += 1;
                    }
                    total.fetch_add(n, std::sync::atomic::Ordering::Relaxed);
                    if !mine.is_empty() {
                        bad.lock().unwrap().extend(mine);
                    }
                });
            }
        }
    });
    (total.into_inner(), bad.into_inner().unwrap())
}

pub fn classifier_scan(cw: &mut CaseWriter, thorough: bool) {
    // quick: every f32 in [-720,1080] for the two bemodel classifiers takes ~10 s on 16 cores
    let (lo, hi) = (-720.0f32, 1080.0f32);
    let _ = thorough;
    let (n1, bad1) = scan_range(lo, hi, 16, |x| {
        let got = tilt_code(Tilt::from(x));
        let want = ref_tilt(x as f64);
        // where the reduced angle is not an f32, the class of its f32 rounding is accepted as well
        if got != want && got != ref_tilt(reduce_f32(x as f64)) {
            Some(format!("Tilt::from({x:e}) = {got}, angle mod 360 is in class {want}"))
        } else {
            None
        }
    });
    let (n2, bad2) = scan_range(lo, hi, 16, |x| {
        let got = orient_code(Orientation::from(x));
        let want = ref_orient(x as f64);
        if got != want && got != ref_orient(reduce_f32(x as f64)) {
            Some(format!("Orientation::from({x:e}) = {got}, angle mod 360 is in class {want}"))
        } else {
            None
        }
    });
    // parser vs model on [0, 360]
    let (n3, bad3) = scan_range(0.0, 360.0, 16, |x| {
        let w = hulc::bdl::Wall {
            tilt: x,
            ..Default::default()
        };
        let a = hulc_tilt_code(w.position());
        let b = tilt_code(Tilt::from(x));
        if a != b {
            Some(format!("tilt {x:e}: parser class {a}, model class {b}"))
        } else {
            None
        }
    });
    cw.write(json!({
        "op": "noop", "label": "classifier-scan",
        "impl": {"scan": {
            "tilt": {"n": n1, "mismatches": bad1},
            "orientation": {"n": n2, "mismatches": bad2},
            "parser_vs_model": {"n": n3, "mismatches": bad3}}}
    }));
}

/// sample points around every threshold, sent to the Lean model as exact bit patterns
pub fn classifier_samples(cw: &mut CaseWriter) {
    let mut xs: Vec<f32> = vec![];
    let ths = [
        0.0f32, 18.0, 60.0, 69.0, 120.0, 157.5, 202.5, 240.0, 291.0, 300.0, 342.0, 360.0,
    ];
    for k in -2..=2 {
        for t in ths {
            let c = t + 360.0 * k as f32;
            let b = c.to_bits() as i64;
            for d in -3i64..=3 {
                let bb = if c == 0.0 {
                    if d < 0 { (0x8000_0000u32 as i64) + (-d) } else { d }
                } else if c > 0.0 { b + d } else { b - d };
                xs.push(f32::from_bits(bb as u32));
            }
        }
    }
    let pts: Vec<Value> = xs
        .iter()
        .map(|x| {
            json!({"bits": x.to_bits(), "tilt": tilt_code(Tilt::from(*x)), "orient": orient_code(Orientation::from(*x))})
        })
        .collect();
    cw.write(json!({"op": "classify", "label": "classifier-thresholds", "points": pts, "impl": {}}));
}

pub fn run(args: &Args) -> i32 {
    let mut cw = CaseWriter::new(&args.out, "cases.jsonl");
    let one = |cw: &mut CaseWriter, label: &str, m: &Model, rng: &mut Rng| {
        let (imp, fsh, rad) = observe(m);
        let s = *rng.pick(&[0.25f32, 0.5, 2.0, 4.0, 1.5, 3.0]);
        let scaled = scale_model(m, s);
        cw.write(json!({
            "op": "indicators", "label": label, "model": model_value(m), "fshobst": fsh, "radjul": rad,
            "impl": imp, "scaling": {"s": s, "before": globals(m), "after": globals(&scaled)},
        }));
    };
    let mut rng = Rng::new(args.seed);
    if let Some(path) = args.extra.get("replay") {
        let txt = std::fs::read_to_string(path).expect("replay file");
        let v: Value = serde_json::from_str(&txt).expect("replay json");
        let m: Model = serde_json::from_value(v.pointer("/case/model").cloned().unwrap_or(Value::Null)).expect("replay model");
        one(&mut cw, "replay", &m, &mut rng);
        cw.finish();
        return 0;
    }
    for (label, m) in crate::corpus::real_models(args.tier == "thorough") {
        one(&mut cw, &label, &m, &mut rng);
    }
    for i in 0..args.n {
        let mut r = rng.fork(i as u64);
        let m = gen_model(&mut r, &profile(i));
        one(&mut cw, &format!("gen:{}:{}", args.seed, i), &m, &mut r);
    }
    // corner without random draws on the main stream: spaces lower than their ceilings are thick (negative net height) — the two
    // ventilation rates must still be one function of the model
    {
        let mut r = rng.fork(999_991);
        let mut m = gen_model(&mut r, &profile(0));
        for s in m.spaces.iter_mut() {
            s.height = 0.001;
        }
        m.meta.global_ventilation_l_s = Some(100.0);
        one(&mut cw, "corner:low-spaces", &m, &mut r);
    }
    classifier_samples(&mut cw);
    classifier_scan(&mut cw, args.tier == "thorough");
    cw.finish();
    0
}
