//! C02: converted models are referentially closed, or conversion fails with an error.
//! Observation: `Model::try_from(&CtehexmlData)` on real projects, generated projects and on each of them with
//! one referenced definition renamed / removed; the BDL skeleton (names and references of `hulc::bdl::Data`) goes to
//! the Lean model of the conversion, the model skeleton (ids and references of the result) to the closure oracle.
use crate::bdlgen;
use crate::corpus::{guarded, Outcome};
use crate::props::CaseWriter;
use crate::rng::Rng;
use crate::Args;
use bemodel::Model;
use hulc::bdl::{Data, Schedule};
use serde_json::{json, Value};

fn with_catalog(mut d: Data, cat: &hulc::bdl::DB) -> Data {
    d.db.materials.extend(cat.materials.clone());
    d.db.wallcons.extend(cat.wallcons.clone());
    d.db.wincons.extend(cat.wincons.clone());
    d.db.glasses.extend(cat.glasses.clone());
    d.db.frames.extend(cat.frames.clone());
    d
}

/// names and references of the parsed project, as the conversion sees them
fn bdl_skeleton(d: &Data) -> Value {
    let spaces: Vec<Value> = d.spaces.iter().map(|s| json!({"name": s.name, "spaceconds": s.spaceconds, "systemconds": s.systemconds, "nverts": s.polygon.0.len()})).collect();
    let walls: Vec<Value> = d
        .walls
        .iter()
        .map(|w| json!({"name": w.name, "space": w.space, "cons": w.cons, "nextto": w.nextto, "location": w.location, "has_polygon": w.polygon.is_some()}))
        .collect();
    let windows: Vec<Value> = d.windows.iter().map(|w| json!({"name": w.name, "wall": w.wall, "cons": w.cons})).collect();
    let wallcons: Vec<Value> = d.db.wallcons.iter().map(|(k, c)| json!({"key": k, "name": c.name, "materials": c.material})).collect();
    let wincons: Vec<Value> = d.db.wincons.iter().map(|(k, c)| json!({"key": k, "name": c.name, "glass": c.glass, "frame": c.frame})).collect();
    let materials: Vec<Value> = d.db.materials.iter().map(|(k, m)| json!({"key": k, "name": m.name})).collect();
    let glasses: Vec<Value> = d.db.glasses.keys().map(|k| json!(k)).collect();
    let frames: Vec<Value> = d.db.frames.keys().map(|k| json!(k)).collect();
    let mut days = vec![];
    let mut weeks = vec![];
    let mut years = vec![];
    for s in &d.schedules {
        match s {
            Schedule::Day(x) => days.push(json!({"name": x.name, "nvalues": x.values.len()})),
            Schedule::Week(x) => weeks.push(json!({"name": x.name, "days": x.days})),
            Schedule::Year(x) => years.push(json!({"name": x.name, "weeks": x.weeks, "months": x.months, "days": x.days})),
        }
    }
    let loads: Vec<Value> = d
        .space_conditions
        .iter()
        .map(|(k, b)| {
            let f = |a: &str| b.attrs.get_f32(a).ok();
            let area = f("AREA/PERSON");
            let numeric_ok = area.is_some()
                && (area == Some(0.0) || (f("PEOPLE-HG-SENS").is_some() && f("PEOPLE-HG-LAT").is_some()))
                && f("EQUIPMENT-W/AREA").is_some()
                && f("LIGHTING-W/AREA").is_some();
            json!({"key": k, "name": b.name, "numeric_ok": numeric_ok, "people": b.attrs.get_str("PEOPLE-SCHEDULE").ok(),
                   "equip": b.attrs.get_str("EQUIP-SCHEDULE").ok(), "light": b.attrs.get_str("LIGHTING-SCHEDULE").ok()})
        })
        .collect();
    let thermostats: Vec<Value> = d
        .system_conditions
        .iter()
        .map(|(k, b)| json!({"key": k, "name": b.name, "conditioned": b.attrs.get_str("TYPE").ok().as_deref() == Some("CONDITIONED"),
                              "cool": b.attrs.get_str("COOL-TEMP-SCH").ok(), "heat": b.attrs.get_str("HEAT-TEMP-SCH").ok()}))
        .collect();
    json!({"spaces": spaces, "walls": walls, "windows": windows, "wallcons": wallcons, "wincons": wincons, "materials": materials,
           "glasses": glasses, "frames": frames, "days": days, "weeks": weeks, "years": years, "loads": loads, "thermostats": thermostats})
}

/// ids and references of the converted model
fn model_skeleton(m: &Model) -> Value {
    let v = serde_json::to_value(m).expect("model json");
    let pick = |arr: &Value, keys: &[&str]| -> Value {
        Value::Array(
            arr.as_array()
                .map(|a| {
                    a.iter()
                        .map(|e| {
                            let mut o = serde_json::Map::new();
                            for k in keys {
                                o.insert(k.to_string(), e.get(*k).cloned().unwrap_or(Value::Null));
                            }
                            Value::Object(o)
                        })
                        .collect()
                })
                .unwrap_or_default(),
        )
    };
    let layers = |arr: &Value| -> Value {
        Value::Array(
            arr.as_array()
                .map(|a| {
                    a.iter()
                        .map(|e| json!({"id": e["id"], "name": e["name"], "layers": e["layers"].as_array().map(|l| l.iter().map(|x| x["material"].clone()).collect::<Vec<_>>()).unwrap_or_default()}))
                        .collect()
                })
                .unwrap_or_default(),
        )
    };
    let sched = |arr: &Value| -> Value {
        Value::Array(
            arr.as_array()
                .map(|a| {
                    a.iter()
                        .map(|e| json!({"id": e["id"], "name": e["name"], "refs": e["values"].as_array().map(|l| l.iter().map(|x| x[0].clone()).collect::<Vec<_>>()).unwrap_or_default()}))
                        .collect()
                })
                .unwrap_or_default(),
        )
    };
    json!({
        "walls": pick(&v["walls"], &["id", "name", "cons", "space", "next_to"]),
        "windows": pick(&v["windows"], &["id", "name", "cons", "wall"]),
        "spaces": pick(&v["spaces"], &["id", "name", "loads", "thermostat"]),
        "shades": pick(&v["shades"], &["id", "name"]),
        "thermal_bridges": pick(&v["thermal_bridges"], &["id", "name"]),
        "wallcons": layers(&v["cons"]["wallcons"]),
        "wincons": pick(&v["cons"]["wincons"], &["id", "name", "glass", "frame"]),
        "materials": pick(&v["cons"]["materials"], &["id", "name"]),
        "glasses": pick(&v["cons"]["glasses"], &["id", "name"]),
        "frames": pick(&v["cons"]["frames"], &["id", "name"]),
        "years": sched(&v["schedules"]["year"]),
        "weeks": sched(&v["schedules"]["week"]),
        "days": pick(&v["schedules"]["day"], &["id", "name"]),
        "loads": pick(&v["loads"], &["id", "name", "people_schedule", "equipment_schedule", "lighting_schedule"]),
        "thermostats": pick(&v["thermostats"], &["id", "name", "temp_max", "temp_min"]),
        "check_warnings": bemodel::check(m).len(),
    })
}

/// parse + convert; observation = (bdl skeleton when the text parses, outcome, model skeleton)
fn observe(text: &str, cat: Option<&hulc::bdl::DB>) -> Value {
    let parsed = guarded(|| Data::new(text));
    let data = match parsed {
        Outcome::Ok(d) => match cat {
            Some(c) => with_catalog(d, c),
            None => d,
        },
        Outcome::Err(e) => return json!({"parse": "err", "msg": e.chars().take(160).collect::<String>()}),
        Outcome::Panic(e) => return json!({"parse": "panic", "msg": e.chars().take(160).collect::<String>()}),
    };
    let skel = bdl_skeleton(&data);
    let cd = hulc::ctehexml::CtehexmlData { bdldata: data, ..Default::default() };
    match guarded(|| Model::try_from(&cd)) {
        Outcome::Ok(m) => json!({"parse": "ok", "bdl": skel, "convert": "ok", "model": model_skeleton(&m)}),
        Outcome::Err(e) => json!({"parse": "ok", "bdl": skel, "convert": "err", "msg": e.chars().take(160).collect::<String>()}),
        Outcome::Panic(e) => json!({"parse": "ok", "bdl": skel, "convert": "panic", "msg": e.chars().take(160).collect::<String>()}),
    }
}

const REF_KINDS: [&str; 17] = ["SPACE", "LAYERS", "MATERIAL", "GLASS-TYPE", "NAME-FRAME", "GAP", "DAY-SCHEDULE-PD", "WEEK-SCHEDULE-PD", "SCHEDULE-PD",
    "SPACE-CONDITIONS", "SYSTEM-CONDITIONS", "POLYGON", "FLOOR", "EXTERIOR-WALL", "INTERIOR-WALL", "ROOF", "UNDERGROUND-WALL"];
const WALL_KINDS: [&str; 4] = ["EXTERIOR-WALL", "INTERIOR-WALL", "ROOF", "UNDERGROUND-WALL"];

/// header lines of the definitions other blocks refer to by name: (line index, name, type)
fn definitions(lines: &[&str]) -> Vec<(usize, String, String)> {
    let mut v = vec![];
    for (i, l) in lines.iter().enumerate() {
        let t = l.trim();
        if !t.starts_with('"') {
            continue;
        }
        if let Some(q) = t[1..].find('"') {
            let name = &t[1..1 + q];
            let rest = t[2 + q..].trim();
            if let Some(ty) = rest.strip_prefix('=') {
                let ty = ty.trim();
                if REF_KINDS.contains(&ty) && !name.is_empty() {
                    v.push((i, name.to_string(), ty.to_string()));
                }
            }
        }
    }
    v
}

fn mutate(lines: &[&str], def: &(usize, String, String), how: &str) -> Option<String> {
    let (li, name, _) = def;
    match how {
        "rename" => {
            let mut v: Vec<String> = lines.iter().map(|s| s.to_string()).collect();
            v[*li] = v[*li].replacen(&format!("\"{}\"", name), &format!("\"{}_X\"", name), 1);
            Some(v.join("\n"))
        }
        "retype" => {
            // a wall block re-typed to a kind the parent tracking still counts as a wall but the parser does not keep:
            // the windows written under it now hang from a wall that does not exist
            let mut v: Vec<String> = lines.iter().map(|s| s.to_string()).collect();
            v[*li] = v[*li].replacen(def.2.as_str(), "UNDERGROUND-FLOOR", 1);
            Some(v.join("\n"))
        }
        "crossref" => {
            // one reference to this schedule now names an existing schedule of another kind (year / week / day): the name exists,
            // but not among the definitions the reference is looked up in
            const SCH: [&str; 3] = ["DAY-SCHEDULE-PD", "WEEK-SCHEDULE-PD", "SCHEDULE-PD"];
            if !SCH.contains(&def.2.as_str()) {
                return None;
            }
            let other = definitions(lines).into_iter().find(|d| SCH.contains(&d.2.as_str()) && d.2 != def.2 && d.1 != *name)?;
            let quoted = format!("\"{}\"", name);
            let at = lines.iter().enumerate().position(|(i, l)| i != *li && l.contains(&quoted) && !l.trim_start().starts_with('"'))?;
            let mut v: Vec<String> = lines.iter().map(|s| s.to_string()).collect();
            v[at] = v[at].replacen(&quoted, &format!("\"{}\"", other.1), 1);
            Some(v.join("\n"))
        }
        "remove" => {
            let end = (*li..lines.len().min(li + 400)).find(|&j| lines[j].trim() == "..")?;
            Some(lines[..*li].iter().chain(lines[end + 1..].iter()).copied().collect::<Vec<_>>().join("\n"))
        }
        _ => None,
    }
}

/// the numbers and classes the conversion gives to spaces, thermal bridges and windows
fn values_of(text: &str) -> Value {
    let t = text.to_string();
    let n = |x: f32| if x.is_finite() { json!(x as f64) } else { json!("nonfinite") };
    match crate::corpus::guarded(move || {
        let bdldata = hulc::bdl::Data::new(&t)?;
        let data = hulc::ctehexml::CtehexmlData { bdldata, ..Default::default() };
        let m = bemodel::Model::try_from(&data)?;
        Ok(serde_json::to_string(&json!({
            "spaces": m.spaces.iter().map(|s| json!({"name": s.name, "z": n(s.z), "height": n(s.height), "inside_tenv": s.inside_tenv, "multiplier": n(s.multiplier),
                "kind": format!("{:?}", s.kind), "n_v": s.n_v.map(n), "illuminance": s.illuminance.map(n)})).collect::<Vec<_>>(),
            "tbs": m.thermal_bridges.iter().map(|t| json!({"name": t.name, "kind": format!("{:?}", t.kind), "l": n(t.l), "psi": n(t.psi)})).collect::<Vec<_>>(),
            "loads": m.loads.iter().map(|l| json!({"name": l.name, "area_per_person": n(l.area_per_person), "people_sensible": n(l.people_sensible),
                "people_latent": n(l.people_latent), "equipment": n(l.equipment), "lighting": n(l.lighting)})).collect::<Vec<_>>(),
            "wallcons": m.cons.wallcons.iter().map(|c| json!({"name": c.name, "thickness": c.layers.iter().map(|l| n(l.e)).collect::<Vec<_>>(), "absorptance": n(c.absorptance)})).collect::<Vec<_>>(),
            "wincons": m.cons.wincons.iter().map(|c| json!({"name": c.name, "f_f": n(c.f_f), "delta_u": n(c.delta_u), "g_glshwi": c.g_glshwi.map(n), "c_100": n(c.c_100)})).collect::<Vec<_>>(),
            "glasses": m.cons.glasses.iter().map(|g| json!({"name": g.name, "u_value": n(g.u_value), "g_gln": n(g.g_gln)})).collect::<Vec<_>>(),
            "frames": m.cons.frames.iter().map(|f| json!({"name": f.name, "u_value": n(f.u_value), "absorptivity": n(f.absorptivity)})).collect::<Vec<_>>(),
            "schedules": {
                "day": m.schedules.day.iter().map(|d| json!({"name": d.name, "values": d.values.iter().map(|v| n(*v)).collect::<Vec<_>>()})).collect::<Vec<_>>(),
                "week": m.schedules.week.iter().map(|w| json!({"name": w.name, "runs": w.values.iter().map(|(id, c)| json!([m.schedules.day.iter().find(|d| d.id == *id).map(|d| d.name.clone()), c])).collect::<Vec<_>>()})).collect::<Vec<_>>(),
                "year": m.schedules.year.iter().map(|y| json!({"name": y.name, "periods": y.values.iter().map(|(id, c)| json!([m.schedules.week.iter().find(|w| w.id == *id).map(|w| w.name.clone()), c])).collect::<Vec<_>>()})).collect::<Vec<_>>(),
            },
            "windows": m.windows.iter().map(|w| json!({"name": w.name, "x": w.geometry.position.map(|p| n(p.x)), "y": w.geometry.position.map(|p| n(p.y)),
                "width": n(w.geometry.width), "height": n(w.geometry.height), "setback": n(w.geometry.setback)})).collect::<Vec<_>>(),
        }))?)
    }) {
        crate::corpus::Outcome::Ok(t) => json!({"ok": serde_json::from_str::<Value>(&t).unwrap_or(Value::Null)}),
        crate::corpus::Outcome::Err(e) => json!({"err": e}),
        crate::corpus::Outcome::Panic(p) => json!({"panic": p}),
    }
}

pub fn run(args: &Args) -> i32 {
    let mut cw = CaseWriter::new(&args.out, "cases.jsonl");
    let mut rng = Rng::new(args.seed ^ 0xC02);
    let thorough = args.tier == "thorough";
    let cat = hulc::ctehexml::load_lider_catalog().unwrap_or_default();
    // real projects: the BDL section of each .ctehexml and each legacy file, with the catalogue merged in as the tools do
    let reals = crate::props::c18::real_texts();
    let mut texts: Vec<(String, String, bool)> = reals.into_iter().filter(|(l, _)| l != "BDCatalogo.bdc").map(|(l, t)| (l, t, true)).collect();
    for i in 0..args.n {
        let p = bdlgen::gen_proj(&mut rng, &bdlgen::GenOpts { rotated_spaces: i % 4 == 3, polygon_outlines: i % 2 == 1 });
        texts.push((format!("gen{i}"), bdlgen::print_proj(&p), false));
    }
    for (ti, (label, text, is_real)) in texts.iter().enumerate() {
        let c = if *is_real { Some(&cat) } else { None };
        let base = observe(text, c);
        cw.write(json!({"op": "skelconvert", "kind": if *is_real { "real" } else { "generated" }, "label": label, "impl": base}));
        if !*is_real {
            // the values the conversion gives to spaces, thermal bridges and windows (Lean: text -> typed elements -> ConvValues)
            cw.write(json!({"op": "convvalues", "kind": "values", "label": format!("{label}:values"), "text": text, "impl": values_of(text)}));
        }
        // mutants: one referenced definition renamed or removed
        let lines: Vec<&str> = text.lines().collect();
        let defs = definitions(&lines);
        if defs.is_empty() {
            continue;
        }
        let nm = if thorough { if *is_real { 12 } else { 6 } } else if *is_real { if ti % 3 == (args.seed as usize) % 3 { 3 } else { 0 } } else { 2 };
        for _ in 0..nm {
            // walls are referred to by position (the windows that follow them): half of the mutants aim at a wall that hosts a window
            let hosts: Vec<&(usize, String, String)> = defs.iter().filter(|d| WALL_KINDS.contains(&d.2.as_str())
                && lines.get(d.0 + 1..).map_or(false, |rest| rest.iter().take_while(|l| !WALL_KINDS.iter().any(|k| l.trim_end().ends_with(&format!("= {k}"))) && !l.contains("= SPACE") && !l.contains("= FLOOR"))
                    .any(|l| l.trim_end().ends_with("= WINDOW")))).collect();
            let scheds: Vec<&(usize, String, String)> = defs.iter().filter(|d| d.2.ends_with("SCHEDULE-PD")).collect();
            let d = if !hosts.is_empty() && rng.chance(1, 2) { (*rng.pick(&hosts)).clone() } else if !scheds.is_empty() && rng.chance(1, 4) { (*rng.pick(&scheds)).clone() } else { rng.pick(&defs).clone() };
            let is_wall = WALL_KINDS.contains(&d.2.as_str());
            let is_sched = ["DAY-SCHEDULE-PD", "WEEK-SCHEDULE-PD", "SCHEDULE-PD"].contains(&d.2.as_str());
            let how = if is_wall { *rng.pick(&["remove", "retype", "retype"]) } else if is_sched && rng.chance(1, 2) { "crossref" } else if rng.chance(1, 2) { "rename" } else { "remove" };
            if let Some(t2) = mutate(&lines, &d, how) {
                let obs = observe(&t2, c);
                // was the definition referenced elsewhere in the text?
                let quoted = format!("\"{}\"", d.1);
                let referenced = lines.iter().enumerate().any(|(i, l)| i != d.0 && l.contains(&quoted));
                cw.write(json!({"op": "skelconvert", "kind": "mutant", "label": format!("{label}:{how}:{}:{}", d.2, d.1), "how": how, "def_kind": d.2, "def_name": d.1,
                    "referenced": referenced, "base": {"convert": base["convert"], "model_spaces": base["model"]["spaces"]}, "impl": obs}));
            }
        }
    }
    cw.finish();
    0
}
