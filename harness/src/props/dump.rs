//! Dump of the embedded climate tables from the running statics, for the generated Lean files.
use crate::Args;
use bemodel::climatedata::{CLIMATEMETADATA, JULYRADDATA, MONTHLYRADDATA};
use serde_json::json;

pub fn run(args: &Args) -> i32 {
    // serialise to text directly: f32 values print as their shortest decimal (no f64 widening)
    let monthly = serde_json::to_string(&*MONTHLYRADDATA.lock().unwrap()).unwrap();
    let july: Vec<String> = {
        let g = JULYRADDATA.lock().unwrap();
        let mut v: Vec<_> = g.iter().map(|(z, v)| (z.to_string(), serde_json::to_string(v).unwrap())).collect();
        v.sort();
        v.into_iter().map(|(z, t)| format!("{}:{}", serde_json::to_string(&z).unwrap(), t)).collect()
    };
    let meta: Vec<String> = {
        let g = CLIMATEMETADATA.lock().unwrap();
        let mut v: Vec<_> = g.iter().map(|(z, v)| (z.to_string(), serde_json::to_string(v).unwrap())).collect();
        v.sort();
        v.into_iter().map(|(z, t)| format!("{}:{}", serde_json::to_string(&z).unwrap(), t)).collect()
    };
    // zone names: Display and TryFrom round trip as observed
    let zones: Vec<serde_json::Value> = crate::genmodel::ZONES
        .iter()
        .map(|name| {
            let z = bemodel::climatedata::ClimateZone::try_from(*name);
            json!({"name": name, "parses": z.is_ok(), "display": z.map(|z| z.to_string()).unwrap_or_default()})
        })
        .collect();
    // `Default::default()` of the structs that carry a struct-level `#[serde(default)]`
    let defaults = format!(
        "{{\"Model\":{},\"PropsOverrides\":{}}}",
        serde_json::to_string(&bemodel::Model::default()).unwrap(),
        serde_json::to_string(&bemodel::PropsOverrides::default()).unwrap()
    );
    let out = format!(
        "{{\"monthly\":{},\"july\":{{{}}},\"meta\":{{{}}},\"zones\":{},\"defaults\":{}}}",
        monthly,
        july.join(","),
        meta.join(","),
        serde_json::to_string(&zones).unwrap(),
        defaults
    );
    std::fs::write(format!("{}/tables.json", args.out), out).unwrap();
    0
}
