//! C05: determinism, reproducibility and history independence of export and indicators.
use crate::corpus::{convert_lider, convert_project, lider_files, project_dirs, Outcome};
use crate::genmodel::{gen_model, GenOpts};
use crate::props::CaseWriter;
use crate::rng::Rng;
use crate::Args;
use bemodel::Model;
use serde_json::{json, Value};
use std::io::Write;
use std::process::{Command, Stdio};

fn md5ish(s: &str) -> String {
    // FNV-1a 64: enough to compare texts across processes
    let mut h: u64 = 0xcbf29ce484222325;
    for b in s.as_bytes() {
        h ^= *b as u64;
        h = h.wrapping_mul(0x100000001b3);
    }
    format!("{:016x}:{}", h, s.len())
}

fn convert_any(path: &str) -> Option<String> {
    let p = std::path::Path::new(path);
    let out = if p.is_dir() { convert_project(p) } else { convert_lider(p) };
    match out {
        Outcome::Ok(m) => m.as_json().ok(),
        _ => None,
    }
}

fn indicators_value(m: &Model) -> Value {
    match crate::corpus::guarded(|| Ok(serde_json::to_value(m.energy_indicators())?)) {
        Outcome::Ok(v) => v,
        Outcome::Err(e) => json!({"err": e}),
        Outcome::Panic(p) => json!({"panic": p}),
    }
}

/// child: `--worker convert` prints one hash per path; `--worker indicators` reads models (one JSON per line) from
/// stdin and prints the hash of each indicators JSON, in reverse order of computation
fn worker(args: &Args, mode: &str) -> i32 {
    let out = std::io::stdout();
    if mode == "convert" {
        let list = args.extra.get("paths").cloned().unwrap_or_default();
        // in the reverse of the parent's order: what was converted before a project differs between the two processes
        for p in list.split('\n').filter(|s| !s.is_empty()).rev() {
            let h = convert_any(p).map(|t| md5ish(&t)).unwrap_or_else(|| "FAILED".into());
            writeln!(out.lock(), "C05 {p}\t{h}").ok();
        }
    } else {
        let mut txt = String::new();
        std::io::Read::read_to_string(&mut std::io::stdin(), &mut txt).ok();
        let models: Vec<Model> = txt.lines().filter_map(|l| serde_json::from_str(l).ok()).collect();
        let mut res = vec![String::new(); models.len()];
        for (i, m) in models.iter().enumerate().rev() {
            res[i] = md5ish(&indicators_value(m).to_string());
        }
        for (i, h) in res.iter().enumerate() {
            writeln!(out.lock(), "C05 {i}\t{h}").ok();
        }
    }
    0
}

pub fn run(args: &Args) -> i32 {
    if let Some(mode) = args.extra.get("worker") {
        return worker(args, mode);
    }
    let exe = std::env::current_exe().expect("exe");
    let mut cw = CaseWriter::new(&args.out, "cases.jsonl");
    let thorough = args.tier == "thorough";
    // ---------- conversion: twice in process, fresh process, 16 threads
    let mut paths: Vec<String> = project_dirs().iter().map(|p| p.to_string_lossy().to_string()).collect();
    let lf = lider_files();
    let nl = if thorough { lf.len() } else { 8 };
    paths.extend(lf.iter().take(nl).map(|p| p.to_string_lossy().to_string()));
    // generated projects, half of them with one block written twice (two elements with the same definition)
    {
        let dir = std::path::Path::new(&args.out).join("gen");
        std::fs::create_dir_all(&dir).ok();
        let mut rng = Rng::new(args.seed ^ 0xC05B);
        for i in 0..(if thorough { 40 } else { 8 }) {
            let p = crate::bdlgen::gen_proj(&mut rng, &crate::bdlgen::GenOpts { rotated_spaces: i % 3 == 2, polygon_outlines: i % 2 == 1 });
            let mut text = crate::bdlgen::print_proj(&p);
            if i % 2 == 1 {
                let lines: Vec<&str> = text.lines().collect();
                let kinds = ["= WINDOW", "= MATERIAL", "= BUILDING-SHADE", "= THERMAL-BRIDGE", "= DAY-SCHEDULE-PD", "= GLASS-TYPE"];
                let kind = kinds[(i / 2) % kinds.len()];
                let heads: Vec<usize> = lines.iter().enumerate().filter(|(_, l)| l.trim_end().ends_with(kind)).map(|(j, _)| j).collect();
                if !heads.is_empty() {
                    let h = *rng.pick(&heads);
                    if let Some(e) = (h..lines.len()).find(|&j| lines[j].trim() == "..") {
                        let mut v: Vec<&str> = lines[..=e].to_vec();
                        v.extend_from_slice(&lines[h..=e]);
                        v.extend_from_slice(&lines[e + 1..]);
                        text = v.join("\n");
                    }
                }
            }
            let path = dir.join(format!("generated{i}.cte"));
            if std::fs::write(&path, text).is_ok() {
                paths.push(path.to_string_lossy().to_string());
            }
        }
    }
    // synthetic projects (generated BDL in the XML envelope of a shipped project): they go through the catalogue path of the tools and
    // define materials, constructions and schedules under the same names with different values
    if let Some(template) = project_dirs().into_iter().find(|d| d.file_name().map(|n| n == "cubo").unwrap_or(false)) {
        if let Ok(Some(f)) = hulc::ctehexml::find_ctehexml(&template.to_string_lossy()) {
            if let Ok(xml) = std::fs::read_to_string(&f) {
                if let (Some(a), Some(b)) = (xml.find("<EntradaGraficaLIDER>"), xml.find("</EntradaGraficaLIDER>")) {
                    let mut rng = Rng::new(args.seed ^ 0xC05C);
                    for i in 0..(if thorough { 16 } else { 5 }) {
                        let p = crate::bdlgen::gen_proj(&mut rng, &crate::bdlgen::GenOpts { rotated_spaces: i % 3 == 2, polygon_outlines: i % 2 == 1 });
                        let bdl = crate::bdlgen::print_proj(&p).replace('&', "&amp;").replace('<', "&lt;").replace('>', "&gt;");
                        let text = format!("{}<EntradaGraficaLIDER>\n{}\n{}", &xml[..a], bdl, &xml[b..]);
                        let dst = std::path::Path::new(&args.out).join("gen").join(format!("synthetic{i}"));
                        std::fs::create_dir_all(&dst).ok();
                        if std::fs::write(dst.join(format!("synthetic{i}.ctehexml")), text).is_ok() {
                            paths.push(dst.to_string_lossy().to_string());
                        }
                    }
                }
            }
        }
    }
    let first: Vec<Option<String>> = paths.iter().map(|p| convert_any(p)).collect();
    let second: Vec<Option<String>> = paths.iter().map(|p| convert_any(p)).collect();
    let threaded: Vec<Option<String>> = std::thread::scope(|s| {
        let hs: Vec<_> = paths.iter().map(|p| s.spawn(move || convert_any(p))).collect();
        hs.into_iter().map(|h| h.join().ok().flatten()).collect()
    });
    let child = Command::new(&exe)
        .args(["c05", "--worker", "convert", "--paths", &paths.join("\n")])
        .stdout(Stdio::piped())
        .stderr(Stdio::null())
        .output()
        .ok();
    let mut fresh = std::collections::HashMap::new();
    if let Some(o) = child {
        for l in String::from_utf8_lossy(&o.stdout).lines() {
            if let Some(rest) = l.strip_prefix("C05 ") {
                if let Some((p, h)) = rest.split_once('\t') {
                    fresh.insert(p.to_string(), h.to_string());
                }
            }
        }
    }
    // per-process state (hash seeds, lazily built tables) differs from one process to the next: the synthetic projects are converted in
    // five more fresh processes, and every one of them must agree with the first
    let synthetic: Vec<String> = paths.iter().filter(|p| p.contains("/gen/synthetic")).cloned().collect();
    let mut fresh_disagree = std::collections::HashSet::new();
    if !synthetic.is_empty() {
        for _ in 0..5 {
            if let Ok(o) = Command::new(&exe).args(["c05", "--worker", "convert", "--paths", &synthetic.join("\n")]).stdout(Stdio::piped()).stderr(Stdio::null()).output() {
                for l in String::from_utf8_lossy(&o.stdout).lines() {
                    if let Some((p, h)) = l.strip_prefix("C05 ").and_then(|r| r.split_once('\t')) {
                        if fresh.get(p).map(|x| x.as_str()) != Some(h) {
                            fresh_disagree.insert(p.to_string());
                        }
                    }
                }
            }
        }
    }
    for (i, p) in paths.iter().enumerate() {
        let h1 = first[i].as_ref().map(|t| md5ish(t));
        cw.write(json!({"op": "noop", "label": format!("convert:{}", p.rsplit('/').next().unwrap_or(p)), "kind": "convert",
            "impl": {"converts": first[i].is_some(), "same_twice": first[i] == second[i], "same_threaded": first[i] == threaded[i],
                     "same_fresh_process": h1.as_ref().map(|h| fresh.get(p) == Some(h) && !fresh_disagree.contains(p)), "bytes": first[i].as_ref().map(|t| t.len())}}));
    }
    // ---------- reference models shipped next to the projects
    for (proj, file) in [("cubo", "cubo"), ("casoA", "caso_a"), ("e4h_medianeras", "e4h_medianeras"), ("ejemploviv_unif", "ejemploviv_unif"),
                         ("cubo_gt_caldera_radiadores", "cubo_gt_caldera_radiadores"), ("ejemplo_gt_aerotermia", "ejemplo_gt_aerotermia")] {
        let dir = format!("{}/hulc_tests/tests/{}", crate::corpus::REPO, proj);
        let refp = format!("{}/bemodel/tests/data/{}.json", crate::corpus::REPO, file);
        // the references are written by `thor FILE -o` (Makefile): conversion of the file, without hulc2model's `extra` list
        let conv = hulc::ctehexml::find_ctehexml(&dir).ok().flatten().and_then(|f| {
            match crate::corpus::guarded(|| {
                let data = hulc::ctehexml::parse_with_catalog_from_path(&f)?;
                Model::try_from(&data)?.as_json()
            }) {
                Outcome::Ok(t) => serde_json::from_str::<Value>(&t).ok(),
                _ => None,
            }
        });
        let refv = std::fs::read_to_string(&refp).ok().and_then(|t| serde_json::from_str::<Value>(&t).ok());
        cw.write(json!({"op": "noop", "label": format!("reference:{proj}"), "kind": "reference",
            "impl": {"converted": conv.is_some(), "reference_loaded": refv.is_some(), "equal_as_json_values": conv.is_some() && conv == refv}}));
    }
    // ---------- ids are local: an unrelated definition added to the project changes no existing id
    {
        let path = format!("{}/hulc_tests/tests/casoA/casoa.ctehexml", crate::corpus::REPO);
        if let Ok(text) = std::fs::read_to_string(&path) {
            let extra = "\"MaterialSinUsoVerif\" = MATERIAL\n  TYPE = PROPERTIES\n  THICKNESS = 0.1\n  THICKNESS_CHANGE = YES\n  THICKNESS_MAX = 1\n  THICKNESS_MIN = 0.001\n  CONDUCTIVITY = 0.5\n  DENSITY = 1000\n  SPECIFIC-HEAT = 1000\n  VAPOUR-DIFFUSIVITY-FACTOR = 10\n  NAME = \"MaterialSinUsoVerif\"\n  GROUP = \"Verif\"\n  IMAGE = \"asfalto.bmp\"\n  NAME_CALENER = \"\"\n  LIBRARY = NO\n  UTIL = NO\n  OBSOLETE = NO\n  ..\n";
            // a day schedule that carries the name of an existing yearly schedule: names are resolved per kind, so this too is unrelated
            let year_name = text.lines().find(|l| l.trim_end().ends_with("= SCHEDULE-PD")).and_then(|l| l.trim().strip_prefix('"')).and_then(|r| r.split('"').next()).unwrap_or("").to_string();
            let day_twin = format!("\"{}\" = DAY-SCHEDULE-PD\n  TYPE  = FRACTION\n  VALUES  = ( 0.5)\n  ..\n", year_name);
            // … written before the first day schedule, and written after the last yearly schedule of the file
            // (position of the line end that closes the last yearly schedule block)
            let after_last_year = text.rfind("= SCHEDULE-PD").and_then(|i| {
                let mut pos = i;
                for l in text[i..].split_inclusive('\n') {
                    pos += l.len();
                    if l.trim() == ".." {
                        return Some(pos);
                    }
                }
                None
            });
            let mut variants: Vec<(String, String, Option<usize>)> = vec![
                ("material".into(), extra.to_string(), text.find("= MATERIAL").and_then(|i| text[..i].rfind('\n'))),
                ("day-schedule-named-as-a-yearly-one".into(), day_twin.clone(), text.find("= DAY-SCHEDULE-PD").and_then(|i| text[..i].rfind('\n'))),
                ("day-schedule-named-as-a-yearly-one-written-after-it".into(), day_twin, after_last_year.map(|i| i - 1)),
            ];
            // an unused definition may refer to things that are in use: a CONSTRUCTION nobody uses, on a LAYERS block that walls use, with
            // another absorptance and a name that sorts before (and after) every other one; a GAP nobody uses on a glass and a frame in use
            {
                let lines: Vec<&str> = text.lines().collect();
                let mut seen = std::collections::BTreeSet::new();
                let mut offset = 0usize;
                let mut k = 0;
                while k < lines.len() {
                    if lines[k].trim_end().ends_with(" CONSTRUCTION") && lines[k].contains("\" =") {
                        let mut j = k;
                        let mut layers = None;
                        let mut end = offset;
                        let mut off = offset;
                        while j < lines.len() {
                            off += lines[j].len() + 1;
                            if let Some(r) = lines[j].trim().strip_prefix("LAYERS") {
                                layers = r.split('"').nth(1).map(|x| x.to_string());
                            }
                            if lines[j].trim() == ".." {
                                end = off;
                                break;
                            }
                            j += 1;
                        }
                        if let Some(l) = layers {
                            if seen.len() < 6 && seen.insert(l.clone()) && end > 0 && end <= text.len() {
                                for (prefix, abs) in [("AAA", "0.3"), ("zzz", "0.9")] {
                                    let block = format!("\"{prefix} {l} verif\" = CONSTRUCTION\n  TYPE = LAYERS\n  LAYERS = \"{l}\"\n  ABSORPTANCE = {abs}\n  ..\n");
                                    variants.push((format!("unused-{prefix}-construction-on-layers-in-use:{l}"), block, Some(end - 1)));
                                }
                            }
                        }
                    }
                    offset += lines[k].len() + 1;
                    k += 1;
                }
            }
            for (tag, block, marker) in variants {
                if let Some(pos) = marker {
                    let mut t2 = text.clone();
                    t2.insert_str(pos + 1, &block);
                    let ids = |t: &str| -> Option<Vec<(String, String)>> {
                        let data = hulc::ctehexml::parse_with_catalog(t).ok()?;
                        let m = Model::try_from(&data).ok()?;
                        let mut v = vec![];
                        for s in &m.spaces { v.push((format!("space:{}", s.name), s.id.to_string())); }
                        for s in &m.walls { v.push((format!("wall:{}", s.name), s.id.to_string())); }
                        for s in &m.windows { v.push((format!("window:{}", s.name), s.id.to_string())); }
                        for s in &m.cons.wallcons { v.push((format!("wallcons:{}", s.name), s.id.to_string())); }
                        for s in &m.cons.materials { v.push((format!("material:{}", s.name), s.id.to_string())); }
                        for s in &m.cons.wincons { v.push((format!("wincons:{}", s.name), s.id.to_string())); }
                        for s in &m.cons.glasses { v.push((format!("glass:{}", s.name), s.id.to_string())); }
                        for s in &m.cons.frames { v.push((format!("frame:{}", s.name), s.id.to_string())); }
                        for s in &m.loads { v.push((format!("loads:{}", s.name), s.id.to_string())); }
                        for s in &m.thermostats { v.push((format!("thermostat:{}", s.name), s.id.to_string())); }
                        for s in &m.schedules.year { v.push((format!("year:{}", s.name), s.id.to_string())); }
                        for s in &m.schedules.week { v.push((format!("week:{}", s.name), s.id.to_string())); }
                        // the added day schedule is new: only the day schedules of the intact project are compared (by position of their first name)
                        for s in &m.schedules.day { v.push((format!("day:{}", s.name), s.id.to_string())); }
                        // links by id
                        for s in &m.loads { v.push((format!("loads-people-link:{}", s.name), format!("{:?}", s.people_schedule))); }
                        for s in &m.schedules.year { v.push((format!("year-weeks:{}", s.name), format!("{:?}", s.values))); }
                        Some(v)
                    };
                    let (a, b) = (ids(&text), ids(&t2));
                    let changed: Vec<String> = match (&a, &b) {
                        (Some(a), Some(b)) => a.iter().filter(|(n, id)| b.iter().find(|(n2, id2)| n2 == n && (id2 == id || !n.starts_with("day:"))).map_or(true, |(_, id2)| id2 != id)).map(|(n, _)| n.clone()).take(5).collect(),
                        _ => vec!["conversion failed".into()],
                    };
                    cw.write(json!({"op": "noop", "label": format!("ids-local:casoA+{tag}"), "kind": "ids-local",
                        "impl": {"converted": a.is_some() && b.is_some(), "elements": a.as_ref().map(|v| v.len()), "changed_ids": changed}}));
                }
            }
        }
    }
    // ---------- lock traces recorded by the hooked build (written by `cteverif c05trace`, see tools/props/c05.py)
    if let Some(tf) = args.extra.get("tracefile") {
        if let Ok(t) = std::fs::read_to_string(tf) {
            for l in t.lines() {
                if let Ok(v) = serde_json::from_str::<Value>(l) {
                    cw.write(v);
                }
            }
        }
    }
    // ---------- indicators: history independence and concurrency
    let mut models: Vec<(String, Model)> = crate::corpus::real_models(false);
    let mut rng = Rng::new(args.seed);
    for i in 0..args.n {
        let mut r = rng.fork(i as u64);
        let m = gen_model(&mut r, &GenOpts { positions: i % 2 == 0, shades: i % 3, schedules: i % 2 == 1, odd: i % 3 == 0, ..Default::default() });
        // a twin that keeps every id but changes values in place (stale caches keyed by ids would show)
        let mut t = m.clone();
        for mat in t.cons.materials.iter_mut() {
            if let bemodel::MatProps::Detailed { conductivity, .. } = &mut mat.properties {
                *conductivity *= 3.0;
            }
        }
        for g in t.cons.glasses.iter_mut() {
            g.u_value *= 0.5;
        }
        for s in t.spaces.iter_mut() {
            s.height += 0.5;
        }
        models.push((format!("gen:{}:{}", args.seed, i), m));
        models.push((format!("gen:{}:{}:same-ids-other-values", args.seed, i), t));
    }
    let forward: Vec<String> = models.iter().map(|(_, m)| md5ish(&indicators_value(m).to_string())).collect();
    let again: Vec<String> = models.iter().map(|(_, m)| md5ish(&indicators_value(m).to_string())).collect();
    let threaded: Vec<String> = std::thread::scope(|s| {
        let chunks: Vec<_> = models.chunks((models.len() + 15) / 16).map(|c| s.spawn(move || c.iter().map(|(_, m)| md5ish(&indicators_value(m).to_string())).collect::<Vec<_>>())).collect();
        chunks.into_iter().flat_map(|h| h.join().unwrap_or_default()).collect()
    });
    // fresh process, reverse order of computation
    let mut reverse = vec![String::new(); models.len()];
    if let Ok(mut ch) = Command::new(&exe).args(["c05", "--worker", "indicators"]).stdin(Stdio::piped()).stdout(Stdio::piped()).stderr(Stdio::null()).spawn() {
        if let Some(mut sin) = ch.stdin.take() {
            for (_, m) in &models {
                let _ = writeln!(sin, "{}", serde_json::to_string(m).unwrap_or_default());
            }
        }
        if let Ok(o) = ch.wait_with_output() {
            for l in String::from_utf8_lossy(&o.stdout).lines() {
                if let Some(rest) = l.strip_prefix("C05 ") {
                    if let Some((i, h)) = rest.split_once('\t') {
                        if let Ok(i) = i.parse::<usize>() {
                            if i < reverse.len() {
                                reverse[i] = h.to_string();
                            }
                        }
                    }
                }
            }
        }
    }
    for (i, (label, m)) in models.iter().enumerate() {
        cw.write(json!({"op": "noop", "label": format!("indicators:{label}"), "kind": "indicators",
            "model": if forward[i] != reverse[i] || forward[i] != threaded.get(i).cloned().unwrap_or_default() { serde_json::to_value(m).unwrap_or(Value::Null) } else { Value::Null },
            "impl": {"same_again": forward[i] == again[i], "same_16_threads": Some(&forward[i]) == threaded.get(i),
                     "same_fresh_process_reverse_order": forward[i] == reverse[i]}}));
    }
    cw.finish();
    0
}
