//! C04: the JSON model format is lossless, idempotent and stable.
use crate::genmodel::{gen_model, GenOpts};
use crate::props::CaseWriter;
use crate::rng::Rng;
use crate::Args;
use bemodel::Model;
use serde_json::{json, Value};

fn reload(txt: &str) -> Value {
    match Model::from_json(txt) {
        Ok(m) => match m.as_json() {
            Ok(t2) => {
                let t3 = Model::from_json(&t2).and_then(|m| m.as_json()).unwrap_or_default();
                json!({"outcome": "ok", "reser": serde_json::from_str::<Value>(&t2).unwrap_or(Value::Null), "stable": t2 == t3})
            }
            Err(e) => json!({"outcome": "ser-error", "msg": format!("{e}")}),
        },
        Err(e) => json!({"outcome": "load-error", "msg": format!("{e:#}").chars().take(100).collect::<String>()}),
    }
}

fn one(cw: &mut CaseWriter, label: &str, kind: &str, txt: &str, note: Value) {
    let v: Value = serde_json::from_str(txt).unwrap_or(Value::Null);
    cw.write(json!({"op": "recode", "label": label, "kind": kind, "note": note, "json": v, "impl": reload(txt)}));
}

/// all (path, key) pairs of object members
fn members(v: &Value, path: &mut Vec<String>, out: &mut Vec<(Vec<String>, String)>) {
    match v {
        Value::Object(o) => {
            for (k, x) in o {
                out.push((path.clone(), k.clone()));
                path.push(k.clone());
                members(x, path, out);
                path.pop();
            }
        }
        Value::Array(a) => {
            for (i, x) in a.iter().enumerate() {
                path.push(i.to_string());
                members(x, path, out);
                path.pop();
            }
        }
        _ => {}
    }
}

fn at_mut<'a>(v: &'a mut Value, path: &[String]) -> Option<&'a mut Value> {
    let mut cur = v;
    for p in path {
        cur = match cur {
            Value::Object(o) => o.get_mut(p)?,
            Value::Array(a) => a.get_mut(p.parse::<usize>().ok()?)?,
            _ => return None,
        };
    }
    Some(cur)
}

/// explicit defaults the format omits: (object has "id" of kind …, key, value)
const EXPLICIT_DEFAULTS: [(&str, &str, &str); 9] = [
    ("spaces", "multiplier", "1.0"),
    ("spaces", "inside_tenv", "true"),
    ("spaces", "kind", "\"CONDITIONED\""),
    ("spaces", "z", "0.0"),
    ("spaces", "n_v", "null"),
    ("walls", "next_to", "null"),
    ("thermal_bridges", "kind", "\"GENERIC\""),
    ("thermal_bridges", "psi", "0.0"),
    ("windows", "name", "\"\""),
];

pub fn run(args: &Args) -> i32 {
    let mut cw = CaseWriter::new(&args.out, "cases.jsonl");
    let mut rng = Rng::new(args.seed);
    // shipped files: value-stable
    for p in crate::corpus::shipped_model_files() {
        if let Ok(txt) = std::fs::read_to_string(&p) {
            one(&mut cw, &format!("file:{}", p.file_name().unwrap().to_string_lossy()), "shipped", &txt, Value::Null);
        }
    }
    let mut models: Vec<(String, Model)> = crate::corpus::real_models(args.tier == "thorough").into_iter().filter(|(l, _)| !l.starts_with("file:")).collect();
    for i in 0..args.n {
        let mut r = rng.fork(i as u64);
        let o = GenOpts { positions: i % 2 == 0, shades: i % 3, schedules: i % 2 == 1, odd: i % 3 == 0, unused: i % 4 == 0, broken: i % 5 == 0 };
        let mut m = gen_model(&mut r, &o);
        // values equal to each serde default and override entries that set nothing
        if i % 3 == 1 {
            for s in m.spaces.iter_mut() {
                s.name = String::new();
                s.multiplier = 1.0;
                s.z = 0.0;
            }
            if let Some(w) = m.windows.first() {
                m.overrides.windows.insert(w.id, bemodel::WinPropsOverrides { u_value: None, f_shobst: Some(0.5) });
            }
            if let Some(w) = m.walls.first() {
                m.overrides.walls.insert(w.id, bemodel::WallPropsOverrides { u_value: None });
            }
            // several entries per map: their order in the text must not depend on anything but the ids
            for (k, w) in m.windows.iter().enumerate().skip(1) {
                m.overrides.windows.insert(w.id, bemodel::WinPropsOverrides { u_value: Some(1.0 + k as f32 * 0.1), f_shobst: None });
            }
            for (k, w) in m.walls.iter().enumerate().skip(1) {
                m.overrides.walls.insert(w.id, bemodel::WallPropsOverrides { u_value: Some(0.3 + k as f32 * 0.01) });
            }
        }
        // values one f32 step away from a serde default: a "skip if default" predicate must not take them for the default
        if i % 3 == 2 {
            let below_one = f32::from_bits(1.0f32.to_bits() - 1);
            let above_one = f32::from_bits(1.0f32.to_bits() + 1);
            let tiny = f32::from_bits(1);
            for (k, s) in m.spaces.iter_mut().enumerate() {
                s.multiplier = [below_one, above_one, 1.0 - f32::EPSILON, 1.0 + f32::EPSILON][k % 4];
                s.z = [tiny, -tiny, f32::MIN_POSITIVE, -f32::EPSILON][k % 4];
            }
            for (k, tb) in m.thermal_bridges.iter_mut().enumerate() {
                tb.psi = [tiny, -tiny, f32::EPSILON][k % 3];
            }
        }
        if i % 7 == 0 {
            m.extra = Some(vec![]);
        }
        models.push((format!("gen:{}:{}", args.seed, i), m));
    }
    for (label, m) in &models {
        let txt = match m.as_json() {
            Ok(t) => t,
            Err(_) => continue,
        };
        // losslessness against the in-memory value: the Debug rendering shows every field
        // (-0.0 and 0.0 are equal field values: the sign of zero is not part of the comparison)
        let dbg = |m: &Model| format!("{:?}", m).replace("-0.0", "0.0");
        let same = Model::from_json(&txt).map(|m2| dbg(&m2) == dbg(m)).unwrap_or(false);
        one(&mut cw, label, "model", &txt, json!({"reloaded_equals_in_memory_model": same}));
        // mutants on a few models: delete an optional-looking key, write a default explicitly, add an unknown key
        let mut r = rng.fork(label.len() as u64);
        if r.chance(1, 2) {
            let tree: Value = serde_json::from_str(&txt).unwrap();
            let mut ms = vec![];
            members(&tree, &mut vec![], &mut ms);
            for _ in 0..3 {
                if ms.is_empty() {
                    break;
                }
                let (path, key) = ms[r.below(ms.len())].clone();
                let mut t = tree.clone();
                if let Some(Value::Object(o)) = at_mut(&mut t, &path) {
                    o.remove(&key);
                }
                one(&mut cw, label, "delete-key", &t.to_string(), json!({"path": path, "key": key}));
            }
            for (coll, key, val) in EXPLICIT_DEFAULTS {
                let mut t = tree.clone();
                let mut done = false;
                if let Some(Value::Array(a)) = t.get_mut(coll) {
                    if let Some(Value::Object(o)) = a.first_mut() {
                        if !o.contains_key(key) {
                            o.insert(key.to_string(), serde_json::from_str(val).unwrap());
                            done = true;
                        }
                    }
                }
                if done {
                    one(&mut cw, label, "explicit-default", &t.to_string(), json!({"collection": coll, "key": key, "value": val}));
                }
            }
            let mut t = tree.clone();
            if let Value::Object(o) = &mut t {
                o.insert("campo_desconocido".into(), json!({"a": [1, 2, 3]}));
                if let Some(Value::Array(a)) = o.get_mut("spaces") {
                    if let Some(Value::Object(s)) = a.first_mut() {
                        s.insert("otro_desconocido".into(), json!(3.5));
                    }
                }
            }
            one(&mut cw, label, "unknown-keys", &t.to_string(), Value::Null);
        }
    }
    cw.finish();
    0
}
