//! C13: BVH vs exhaustive testing, ray–polygon intersection, bounding boxes, reveal surfaces.
use crate::corpus::{guarded, Outcome};
use crate::props::CaseWriter;
use crate::rng::Rng;
use crate::Args;
use bemodel::energy::{Bounded, Intersectable, Ray, AABB, BVH};
use bemodel::{point, vector, Model, Point2, Point3, Polygon, Space, Wall, WallGeom, WinGeom, Window};
use serde_json::{json, Value};
use std::sync::mpsc;
use std::time::Duration;

fn rand_box(rng: &mut Rng, flat: bool) -> AABB {
    let c = point![rng.f(-20.0, 20.0, 2), rng.f(-20.0, 20.0, 2), rng.f(0.0, 12.0, 2)];
    let mut h = vector![rng.f(0.1, 4.0, 2), rng.f(0.1, 4.0, 2), rng.f(0.1, 3.0, 2)];
    if flat {
        match rng.below(3) {
            0 => h.x = 0.0,
            1 => h.y = 0.0,
            _ => h.z = 0.0,
        }
    }
    AABB::new(c - h, c + h)
}

fn rand_ray(rng: &mut Rng, axis: bool) -> Ray {
    let o = point![rng.f(-30.0, 30.0, 2), rng.f(-30.0, 30.0, 2), rng.f(-2.0, 15.0, 2)];
    let d = if axis {
        match rng.below(6) {
            0 => vector![1.0, 0.0, 0.0],
            1 => -vector![1.0, 0.0, 0.0],
            2 => vector![0.0, 1.0, 0.0],
            3 => -vector![0.0, 1.0, 0.0],
            4 => vector![0.0, 0.0, 1.0],
            // written as the negation of a unit vector: the zero components are negative zeros
            _ => -vector![0.0, 0.0, 1.0],
        }
    } else {
        // aim at the scene so that hits are frequent
        let target = point![rng.f(-15.0, 15.0, 2), rng.f(-15.0, 15.0, 2), rng.f(0.0, 10.0, 2)];
        let v = target - o;
        if v.norm() < 1e-3 {
            vector![0.3, 0.4, 0.5]
        } else {
            v
        }
    };
    Ray::new(o, d)
}

fn box_json(b: &AABB) -> Value {
    json!([b.min.x, b.min.y, b.min.z, b.max.x, b.max.y, b.max.z])
}
fn ray_json(r: &Ray) -> Value {
    json!([r.origin.x, r.origin.y, r.origin.z, r.dir.x, r.dir.y, r.dir.z])
}

struct BvhSet {
    label: String,
    leaf: usize,
    boxes: Vec<AABB>,
    rays: Vec<Ray>,
}

fn gen_bvh_set(seed: u64, k: usize) -> BvhSet {
    let sizes = [0usize, 1, 2, 3, 7, 29, 30, 31, 32, 45, 60, 61, 62, 100, 150, 200];
    let mut r = Rng::new(seed ^ 0xB5).fork(k as u64);
    let n = if k < sizes.len() { sizes[k] } else { r.range(0, 200) };
    let style = k % 5; // 0 random, 1 with duplicates, 2 identical boxes (coinciding centres), 3 flat, 4 same centre different size
    let mut boxes: Vec<AABB> = vec![];
    let base = rand_box(&mut r, false);
    for i in 0..n {
        let b = match style {
            1 if i > 0 && r.chance(1, 3) => boxes[r.below(i)],
            2 => base,
            3 => rand_box(&mut r, true),
            4 => {
                let c = base.center();
                let h = vector![r.f(0.1, 3.0, 2), r.f(0.1, 3.0, 2), r.f(0.1, 3.0, 2)];
                AABB::new(c - h, c + h)
            }
            _ => rand_box(&mut r, false),
        };
        boxes.push(b);
    }
    let leaf = *r.pick(&[30usize, 30, 30, 1, 2, 8]);
    let rays: Vec<Ray> = (0..24).map(|i| rand_ray(&mut r, i % 4 == 3)).collect();
    BvhSet { label: format!("bvh:{}:n{}:style{}:leaf{}", k, n, style, leaf), leaf, boxes, rays }
}

fn bvh_case_json(set: &BvhSet, imp: Value) -> Value {
    let exhaustive: Vec<bool> = set
        .rays
        .iter()
        .map(|ray| set.boxes.iter().any(|b| b.intersects(ray).is_some()))
        .collect();
    let mut imp = imp;
    imp["exhaustive"] = json!(exhaustive);
    json!({
        "op": "bvh", "label": set.label, "leaf": set.leaf,
        "boxes": set.boxes.iter().map(box_json).collect::<Vec<_>>(),
        "rays": set.rays.iter().map(ray_json).collect::<Vec<_>>(),
        "impl": imp,
    })
}

/// element with a recognisable Debug text, so that the shape of the (private) node type can be read from `{:?}` of the BVH
struct Tagged(usize, AABB);
impl std::fmt::Debug for Tagged {
    fn fmt(&self, f: &mut std::fmt::Formatter<'_>) -> std::fmt::Result {
        write!(f, "#{}#", self.0)
    }
}
impl Bounded for Tagged {
    fn aabb(&self) -> AABB {
        self.1
    }
}

/// pre-order fingerprint of the tree: -1 for an inner node, the element count for a leaf
fn tree_shape(boxes: &[AABB], leaf: usize) -> Vec<i64> {
    let bvh = BVH::build(boxes.iter().enumerate().map(|(i, b)| Tagged(i, *b)).collect::<Vec<_>>(), leaf);
    let text = format!("{:?}", bvh);
    let mut out: Vec<i64> = vec![];
    let mut i = 0;
    let bytes = text.as_bytes();
    while i < bytes.len() {
        if text[i..].starts_with("Node {") {
            out.push(-1);
            i += 6;
        } else if text[i..].starts_with("Leaf {") {
            out.push(0);
            i += 6;
        } else if bytes[i] == b'#' {
            if let Some(j) = text[i + 1..].find('#') {
                if let Some(last) = out.last_mut() {
                    *last += 1;
                }
                i += j + 2;
            } else {
                i += 1;
            }
        } else {
            i += 1;
        }
    }
    out
}

/// child process: builds and queries set after set, one JSON line each; a set on which the build does
/// not terminate simply never answers, and the parent kills this process
fn bvh_worker(seed: u64, from: usize, to: usize) -> i32 {
    use std::io::Write;
    let out = std::io::stdout();
    for k in from..to {
        let set = gen_bvh_set(seed, k);
        let (boxes, rays, leaf) = (set.boxes.clone(), set.rays.clone(), set.leaf);
        let boxes2 = set.boxes.clone();
        let imp = match guarded(|| {
            let bvh = BVH::build(boxes, leaf);
            let shape = tree_shape(&boxes2, leaf);
            Ok((rays.iter().map(|r| bvh.intersects(r).is_some()).collect::<Vec<bool>>(), shape))
        }) {
            Outcome::Ok((v, shape)) => json!({"outcome": "ok", "bvh": v, "shape": shape}),
            Outcome::Err(e) => json!({"outcome": "err", "msg": e}),
            Outcome::Panic(p) => json!({"outcome": "panic", "msg": p}),
        };
        let mut o = out.lock();
        writeln!(o, "BVHCASE {}", serde_json::to_string(&bvh_case_json(&set, imp)).unwrap()).ok();
        o.flush().ok();
    }
    0
}

fn bvh_cases(cw: &mut CaseWriter, seed: u64, n_sets: usize) {
    use std::io::BufRead;
    use std::process::{Command, Stdio};
    let exe = std::env::current_exe().expect("current exe");
    let mut k = 0usize;
    let mut hangs = 0usize; // confirmed hangs so far: after three, a watchdog expiry is reported without a second, longer run
    while k < n_sets {
        let mut child = Command::new(&exe)
            .args(["c13", "--seed", &seed.to_string(), "--bvh-worker", &k.to_string(), "--bvh-to", &n_sets.to_string()])
            .stdout(Stdio::piped())
            .stderr(Stdio::null())
            .spawn()
            .expect("spawn worker");
        let stdout = child.stdout.take().unwrap();
        let (tx, rx) = mpsc::channel::<String>();
        std::thread::spawn(move || {
            for line in std::io::BufReader::new(stdout).lines().map_while(Result::ok) {
                if let Some(rest) = line.strip_prefix("BVHCASE ") {
                    if tx.send(rest.to_string()).is_err() {
                        break;
                    }
                }
            }
        });
        loop {
            if k >= n_sets {
                break;
            }
            match rx.recv_timeout(Duration::from_secs(4)) {
                Ok(line) => {
                    cw.write(serde_json::from_str(&line).unwrap());
                    k += 1;
                }
                Err(mpsc::RecvTimeoutError::Timeout) => {
                    // the build of set k does not terminate — or the machine is busy: the set is a hang only if it also
                    // exceeds a minute in a worker of its own
                    let _ = child.kill();
                    hangs += 1;
                    if hangs > 3 {
                        let set = gen_bvh_set(seed, k);
                        cw.write(bvh_case_json(&set, json!({"outcome": "timeout"})));
                        k += 1;
                        break;
                    }
                    let alone = Command::new(&exe)
                        .args(["c13", "--seed", &seed.to_string(), "--bvh-worker", &k.to_string(), "--bvh-to", &(k + 1).to_string()])
                        .stdout(Stdio::piped())
                        .stderr(Stdio::null())
                        .spawn();
                    let mut answered = false;
                    if let Ok(mut c2) = alone {
                        let so = c2.stdout.take().unwrap();
                        let (t2, r2) = mpsc::channel::<String>();
                        std::thread::spawn(move || {
                            for line in std::io::BufReader::new(so).lines().map_while(Result::ok) {
                                if let Some(rest) = line.strip_prefix("BVHCASE ") {
                                    if t2.send(rest.to_string()).is_err() {
                                        break;
                                    }
                                }
                            }
                        });
                        if let Ok(line) = r2.recv_timeout(Duration::from_secs(60)) {
                            cw.write(serde_json::from_str(&line).unwrap());
                            answered = true;
                            hangs -= 1;
                        }
                        let _ = c2.kill();
                        let _ = c2.wait();
                    }
                    if !answered {
                        let set = gen_bvh_set(seed, k);
                        cw.write(bvh_case_json(&set, json!({"outcome": "timeout"})));
                    }
                    k += 1;
                    break;
                }
                Err(mpsc::RecvTimeoutError::Disconnected) => {
                    if k < n_sets {
                        // worker ended early (abort): count the current set as a crash
                        let set = gen_bvh_set(seed, k);
                        cw.write(bvh_case_json(&set, json!({"outcome": "panic", "msg": "worker process died"})));
                        k += 1;
                    }
                    break;
                }
            }
        }
        let _ = child.kill();
        let _ = child.wait();
    }
}

fn star_polygon(rng: &mut Rng) -> Polygon {
    let n = rng.range(3, 12);
    let (cx, cy) = (rng.f(0.5, 4.0, 2), rng.f(0.5, 4.0, 2));
    let mut angs: Vec<f32> = (0..n).map(|i| (i as f32 + rng.f(0.1, 0.9, 3)) * 360.0 / n as f32).collect();
    angs.sort_by(|a, b| a.partial_cmp(b).unwrap());
    let ccw = rng.chance(3, 4);
    let mut pts: Vec<Point2> = angs
        .iter()
        .map(|a| {
            let rr = rng.f(0.6, 3.0, 2);
            point![cx + rr * a.to_radians().cos(), cy + rr * a.to_radians().sin()]
        })
        .collect();
    if !ccw {
        pts.reverse();
    }
    pts
}

/// polygon on a half-metre grid (so that probes can be exactly level with its corners)
fn grid_polygon(rng: &mut Rng) -> Polygon {
    let shapes: [&[(f32, f32)]; 5] = [
        &[(0.0, 0.0), (4.0, 0.0), (4.0, 3.0), (0.0, 3.0)],
        &[(0.0, 0.0), (2.0, -1.0), (4.0, 0.0), (4.0, 2.0), (2.0, 3.0), (0.0, 2.0)],
        &[(0.0, 0.0), (4.0, 0.0), (4.0, 1.5), (2.0, 1.5), (2.0, 3.0), (0.0, 3.0)],
        &[(0.0, 1.0), (2.0, 0.0), (3.5, 2.0), (1.5, 3.5)],
        &[(0.0, 0.0), (3.0, 0.0), (1.5, 2.5)],
    ];
    let sh = shapes[rng.below(shapes.len())];
    let rot = rng.below(sh.len());
    let mut pts: Vec<Point2> = (0..sh.len()).map(|i| sh[(i + rot) % sh.len()]).map(|(x, y)| point![x, y]).collect();
    if rng.chance(1, 4) {
        pts.reverse();
    }
    // one outline in three has its first edge split by an extra corner in the middle (exact on the quarter-metre grid):
    // its first three corners lie on one line
    if rng.chance(1, 3) {
        let mid = point![(pts[0].x + pts[1].x) * 0.5, (pts[0].y + pts[1].y) * 0.5];
        pts.insert(1, mid);
    }
    pts
}

fn ray_polygon_cases(cw: &mut CaseWriter, rng: &mut Rng, n: usize) {
    for k in 0..n {
        let mut r = rng.fork(1000 + k as u64);
        let grid = k % 3 == 2;
        let geom = if grid {
            WallGeom {
                tilt: 0.0,
                azimuth: 0.0,
                position: Some(point![r.range(0, 6) as f32 - 3.0, r.range(0, 6) as f32 - 3.0, r.range(0, 4) as f32]),
                polygon: grid_polygon(&mut r),
            }
        } else {
            WallGeom {
                tilt: *r.pick(&[90.0, 0.0, 180.0, 45.0, 30.0, 120.0, 75.5]),
                azimuth: r.f(-180.0, 180.0, 1),
                position: Some(point![r.f(-10.0, 10.0, 2), r.f(-10.0, 10.0, 2), r.f(0.0, 8.0, 2)]),
                polygon: star_polygon(&mut r),
            }
        };
        let to_global = geom.to_global_coords_matrix().unwrap();
        let inv = to_global.inverse();
        let rot = inv.rotation.matrix();
        let tr = inv.translation.vector;
        let mut rays = vec![];
        let mut hits = vec![];
        if grid {
            // vertical probes exactly level with a corner, at abscissas off the outline
            let pos = geom.position.unwrap();
            for v in geom.polygon.clone() {
                for dx in [-2.25f32, -0.75, 0.25, 0.75, 1.25, 2.75, 5.25] {
                    let o = point![pos.x + v.x + dx, pos.y + v.y, pos.z + 10.0];
                    let ray = Ray::new(o, vector![0.0, 0.0, -1.0]);
                    hits.push(geom.intersects(&ray));
                    rays.push(ray);
                }
            }
        }
        for i in 0..(if grid { 4 } else { 16 }) {
            // aim at a point of the polygon's plane near the polygon
            let local = point![r.f(-1.0, 6.0, 3), r.f(-1.0, 6.0, 3), 0.0];
            let target = to_global * local;
            let o = point![r.f(-25.0, 25.0, 2), r.f(-25.0, 25.0, 2), r.f(-3.0, 20.0, 2)];
            let d = if i % 8 == 7 { o - target } else { target - o };
            if d.norm() < 1e-3 {
                continue;
            }
            let ray = Ray::new(o, d);
            hits.push(geom.intersects(&ray));
            rays.push(ray);
        }
        let bb = geom.aabb();
        let corners: Vec<Point3> = geom.polygon.iter().map(|p| to_global * point![p.x, p.y, 0.0]).collect();
        let contains = corners.iter().all(|c| {
            c.x >= bb.min.x && c.x <= bb.max.x && c.y >= bb.min.y && c.y <= bb.max.y && c.z >= bb.min.z && c.z <= bb.max.z
        });
        cw.write(json!({
            "op": "raypoly", "label": format!("raypoly:{}", k),
            "polygon": geom.polygon.iter().map(|p| json!([p.x, p.y])).collect::<Vec<_>>(),
            "tilt": geom.tilt, "azimuth": geom.azimuth,
            "inv_rot": [[rot[(0,0)], rot[(0,1)], rot[(0,2)]], [rot[(1,0)], rot[(1,1)], rot[(1,2)]], [rot[(2,0)], rot[(2,1)], rot[(2,2)]]],
            "inv_tr": [tr.x, tr.y, tr.z],
            "rays": rays.iter().map(ray_json).collect::<Vec<_>>(),
            "impl": {"hits": hits, "aabb_contains_corners": contains, "aabb": box_json(&bb),
                     "corners": corners.iter().map(|c| json!([c.x, c.y, c.z])).collect::<Vec<_>>()},
        }));
    }
}

fn reveal_cases(cw: &mut CaseWriter, rng: &mut Rng, n: usize) {
    for k in 0..n {
        let mut r = rng.fork(5000 + k as u64);
        let tilt = if k % 3 == 0 || k % 8 == 1 { *r.pick(&[0.0f32, 30.0, 60.0, 120.0, 180.0]) } else { 90.0 };
        let (a, h) = (r.f(3.0, 8.0, 1), r.f(2.5, 4.0, 1));
        let mut m = Model::default();
        let sp = Space { height: 3.0, ..Default::default() };
        let wall = Wall {
            space: sp.id,
            geometry: WallGeom {
                tilt,
                azimuth: r.f(-180.0, 180.0, 0),
                position: Some(point![r.f(-5.0, 5.0, 1), r.f(-5.0, 5.0, 1), r.f(0.0, 6.0, 1)]),
                // the outline is listed anticlockwise, or (one case in four) clockwise: the reveals depend on the pose only
                polygon: if k % 4 == 1 { vec![point![0.0, 0.0], point![0.0, h], point![a, h], point![a, 0.0]] } else { vec![point![0.0, 0.0], point![a, 0.0], point![a, h], point![0.0, h]] },
            },
            ..Default::default()
        };
        let (ww, wh) = (r.f(0.5, 1.5, 2), r.f(0.5, 1.5, 2));
        let win = Window {
            wall: wall.id,
            geometry: WinGeom {
                position: Some(point![r.f(0.2, 1.0, 2), r.f(0.2, 0.8, 2)]),
                width: ww,
                height: wh,
                setback: *r.pick(&[0.05f32, 0.1, 0.2, 0.3, 0.5, 1.0]),
            },
            ..Default::default()
        };
        let to_global = wall.geometry.to_global_coords_matrix().unwrap();
        m.spaces.push(sp);
        m.walls.push(wall.clone());
        m.windows.push(win.clone());
        let occ = m.collect_occluders();
        let mut reveals = vec![];
        let mut reveals_global = vec![];
        for o in occ.iter().filter(|o| o.linked_to_id == Some(win.id)) {
            if let Some(inv) = o.trans_matrix {
                let fwd = inv.inverse();
                reveals_global.push(Value::Array(o.polygon.iter().map(|p| {
                    let g = fwd * point![p.x, p.y, 0.0];
                    json!([g.x, g.y, g.z])
                }).collect()));
                let pts: Vec<Value> = o
                    .polygon
                    .iter()
                    .map(|p| {
                        let g = fwd * point![p.x, p.y, 0.0];
                        // back to wall coordinates: the spec is stated there
                        let l = to_global.inverse() * g;
                        json!([l.x, l.y, l.z])
                    })
                    .collect();
                reveals.push(Value::Array(pts));
            }
        }
        let wg = &win.geometry;
        let p = wg.position.unwrap();
        cw.write(json!({
            "op": "reveals", "label": format!("reveal:{}:tilt{}", k, tilt), "kind": "reveal",
            "tilt": tilt, "window": {"x": p.x, "y": p.y, "w": wg.width, "h": wg.height, "setback": wg.setback},
            "position": wall.geometry.position.map(|q| json!([q.x, q.y, q.z])),
            "trig": {"az": [(wall.geometry.azimuth as f64).to_radians().cos(), (wall.geometry.azimuth as f64).to_radians().sin()],
                     "t": [(tilt as f64).to_radians().cos(), (tilt as f64).to_radians().sin()]},
            "impl": {"reveals_wall_coords": reveals, "reveals_global": reveals_global},
        }));
    }
}

pub fn run(args: &Args) -> i32 {
    if let Some(from) = args.extra.get("bvh-worker") {
        let to = args.extra.get("bvh-to").and_then(|s| s.parse().ok()).unwrap_or(0);
        return bvh_worker(args.seed, from.parse().unwrap_or(0), to);
    }
    let mut cw = CaseWriter::new(&args.out, "cases.jsonl");
    let mut rng = Rng::new(args.seed);
    let thorough = args.tier == "thorough";
    bvh_cases(&mut cw, args.seed, if thorough { 600 } else { 60 });
    ray_polygon_cases(&mut cw, &mut rng, args.n);
    reveal_cases(&mut cw, &mut rng, if thorough { 300 } else { 60 });
    cw.finish();
    0
}
