//! C18: the BDL block parser recovers every value written in the file.
//! Inputs: the shipped files (BDL section of 12 .ctehexml, 56 .cte, the embedded catalogue), the same files
//! re-printed in another layout, documents printed from random abstract descriptions, and damaged documents.
//! Observation: `hulc::bdl::build_blocks(text)`.
use crate::props::CaseWriter;
use crate::rng::Rng;
use crate::Args;
use hulc::bdl::build_blocks;
use serde_json::{json, Value};
use std::io::Read;

pub fn decode(bytes: &[u8]) -> String {
    match std::str::from_utf8(bytes) {
        Ok(s) => s.to_string(),
        Err(_) => bytes.iter().map(|b| *b as char).collect(),
    }
}

/// text of the `EntradaGraficaLIDER` element of a .ctehexml file
pub fn bdl_section(xml: &str) -> Option<String> {
    let a = xml.find("<EntradaGraficaLIDER>")? + "<EntradaGraficaLIDER>".len();
    let b = a + xml[a..].find("</EntradaGraficaLIDER>")?;
    let mut s = xml[a..b].trim();
    if let Some(r) = s.strip_prefix("<![CDATA[") {
        s = r.strip_suffix("]]>").unwrap_or(r);
    }
    Some(s.trim().to_string())
}

fn num_json(x: f32) -> Value {
    if x.is_nan() {
        json!("nan")
    } else if x.is_infinite() {
        json!(if x > 0.0 { "inf" } else { "-inf" })
    } else {
        json!(x as f64)
    }
}

/// observation of `build_blocks`
pub fn observe(text: &str) -> Value {
    let r = std::panic::catch_unwind(std::panic::AssertUnwindSafe(|| build_blocks(text)));
    match r {
        Err(_) => json!({"panic": true}),
        Ok(Err(e)) => json!({"err": format!("{e:#}").chars().take(160).collect::<String>()}),
        Ok(Ok(blocks)) => {
            let v: Vec<Value> = blocks
                .iter()
                .map(|b| {
                    let attrs: Vec<Value> = b
                        .attrs
                        .0
                        .keys()
                        .map(|k| match (b.attrs.get_f32(k), b.attrs.get_str(k)) {
                            (Ok(x), _) => json!([k, {"n": num_json(x)}]),
                            (_, Ok(s)) => json!([k, {"s": s}]),
                            _ => json!([k, null]),
                        })
                        .collect();
                    // the type as its BDL string is not kept by the parser: the Debug name of the variant is
                    json!({"btype": format!("{:?}", b.btype), "name": b.name, "parent": b.parent, "attrs": attrs})
                })
                .collect();
            json!({"ok": v})
        }
    }
}

// ---------------------------------------------------------------- abstract documents and their printer

#[derive(Clone, Debug)]
pub enum AVal {
    Num(String),       // the literal as written
    Str(String, bool), // text, quoted?
    List(Vec<String>, bool), // items as written (quoted names or numbers), multi-line?
}

#[derive(Clone, Debug)]
pub struct ABlock {
    pub name: String,
    pub btype: &'static str,
    pub attrs: Vec<(String, AVal)>,
    pub parent: Option<String>,
}

#[derive(Clone, Debug)]
pub struct Layout {
    pub crlf: bool,
    pub max_indent: usize,
    pub tabs: bool,
    pub max_pad: usize,
    pub trailing: usize,
    pub comments: u32, // per-mille chance of a comment / blank line before any line
    pub close_own_line: bool,
    pub header_quotes: bool,
}

pub const TYPES: [(&str, &str); 53] = [
    ("FLOOR", "Floor"), ("ZONE", "Zone"), ("SPACE", "Space"), ("UNDERGROUND-WALL", "UndergroundWall"), ("UNDERGROUND-FLOOR", "UndergroundFloor"),
    ("INTERIOR-WALL", "InteriorWall"), ("EXTERIOR-WALL", "ExteriorWall"), ("WINDOW", "Window"), ("ROOF", "Roof"), ("DOOR", "Door"),
    ("THERMAL-BRIDGE", "ThermalBridge"), ("CONSTRUCTION", "Construction"), ("MATERIAL", "Material"), ("NAME-FRAME", "NameFrame"),
    ("GLASS-TYPE", "GlassType"), ("LAYERS", "Layers"), ("GAP", "Gap"), ("BUILDING-SHADE", "BuildingShade"), ("POLYGON", "Polygon"),
    ("RUN-PERIOD-PD", "RunPeriodPd"), ("BUILD-PARAMETERS", "BuildParameters"), ("DAY-SCHEDULE-PD", "DaySchedulePd"),
    ("WEEK-SCHEDULE-PD", "WeekSchedulePd"), ("SCHEDULE-PD", "SchedulePd"), ("SCHEDULE-DAY", "ScheduleDay"), ("SCHEDULE-WEEK", "ScheduleWeek"),
    ("SYSTEM-CONDITIONS", "SystemConditions"), ("SPACE-CONDITIONS", "SpaceConditions"), ("DEFECTOS", "Defectos"), ("GENERAL-DATA", "GeneralData"),
    ("WORK-SPACE", "WorkSpace"), ("AUX-LINE", "AuxLine"), ("PARTELIDER", "ParteLider"), ("DESCRIPTION-CONDICTION", "DescriptionCondiction"),
    ("DESCRIPTION", "Description"), ("SYSTEM", "System"), ("PUMP", "Pump"), ("CIRCULATION-LOOP", "CirculationLoop"), ("CHILLER", "Chiller"),
    ("BOILER", "Boiler"), ("DW-HEATER", "DwHeater"), ("HEAT-REJECTION", "HeatRejection"), ("ELEC-GENERATOR", "ElecGenerator"),
    ("GROUND-LOOP-HX", "GroundLoopHx"), ("ELEC-METER", "ElecMeter"), ("FUEL-METER", "FuelMeter"), ("MASTER-METERS", "MasterMeters"),
    ("PLANE", "Plane"), ("LOADS-REPORT", "LoadsReport"), ("SYSTEMS-REPORT", "SystemsReport"), ("PLANT-REPORT", "PlantReport"),
    ("REPORT-BLOCK", "ReportBlock"), ("HOURLY-REPORT", "HourlyReport"),
];

const NAME_CHARS: [char; 18] = ['A', 'b', 'C', 'd', 'E', 'x', 'P', '0', '1', '7', '_', '-', ' ', '.', 'á', 'ñ', 'º', '/'];
const KEYS: [&str; 24] = ["X", "Y", "Z", "HEIGHT", "WIDTH", "AZIMUTH", "TILT", "CONSTRUCTION", "LOCATION", "POLYGON", "TYPE", "GROUP", "AREA/PERSON",
    "PEOPLE-HG-LAT", "MATERIAL", "THICKNESS", "VALUES", "DAY-SCHEDULES", "NEXT-TO", "perteneceALaEnvolventeTermica", "TYPE_ABSORPTANCE", "V1", "V2", "INF-COEF"];
const NUMS: [&str; 30] = ["0", "1", "3", "650", "3.5", "0.600000", "-2.25", "+3.5", "+0", "-0", ".5", "5.", "-.75", "1e20", "-1e20", "1E-3", "2.5e+2", "+1.0E2",
    "00012", "1e-40", "1e39", "-1e39", "16777217", "0.1", "123456.789", "3.4028235e38", "1e-46", "7e0", "0.30000001", "99.0"];
const ODD_STRINGS: [&str; 22] = ["1x", "e5", "in", "nane", "+", "-", ".", "1.2.3", "0x10", "1_0", "1e", "1e+", "--1", "+-1", "1,5", "SPACE-V1", "YES", "infinit", "1 2", "N", "_", "1f"];
const NUMERIC_WORDS: [&str; 8] = ["inf", "INF", "Infinity", "nan", "NaN", "-inf", "+nan", "infinity"];

fn rand_name(rng: &mut Rng, allow_blank: bool) -> String {
    loop {
        let n = rng.range(1, 14);
        let s: String = (0..n).map(|_| *rng.pick(&NAME_CHARS)).collect();
        let s = s.trim().to_string();
        if s.is_empty() || s.contains("..") || (!allow_blank && s.contains(' ')) || s.parse::<f32>().is_ok() || s.starts_with('(') {
            continue;
        }
        return s;
    }
}

fn rand_key(rng: &mut Rng) -> String {
    if rng.chance(3, 4) {
        rng.pick(&KEYS).to_string()
    } else {
        loop {
            let n = rng.range(1, 10);
            let s: String = (0..n).map(|_| *rng.pick(&['A', 'B', 'k', 'Z', '0', '9', '-', '_', '/', 'ñ'])).collect();
            if !s.starts_with('$') && !s.starts_with('+') && !s.starts_with("TEMPLARY") && s != ".." && !s.contains("..") {
                return s;
            }
        }
    }
}

pub fn rand_val(rng: &mut Rng, odd: bool) -> AVal {
    match rng.below(10) {
        0..=3 => AVal::Num(rng.pick(&NUMS).to_string()),
        4..=6 => {
            if odd && rng.chance(1, 6) {
                let w = if rng.chance(1, 3) { *rng.pick(&NUMERIC_WORDS) } else { *rng.pick(&ODD_STRINGS) };
                AVal::Str(w.to_string(), w.contains(' ') || rng.chance(1, 2))
            } else if rng.chance(1, 12) {
                AVal::Str(String::new(), true)
            } else {
                let s = rand_name(rng, true);
                let q = s.contains(' ') || rng.chance(2, 3);
                AVal::Str(s, q)
            }
        }
        7 | 8 => {
            let n = rng.range(1, 8);
            let items = if rng.chance(1, 2) { (0..n).map(|_| format!("\"{}\"", rand_name(rng, true))).collect() } else { (0..n).map(|_| rng.pick(&NUMS).to_string()).collect() };
            AVal::List(items, rng.chance(1, 2))
        }
        _ => AVal::Str(format!("SPACE-V{}", rng.range(1, 9)), false),
    }
}

fn rand_attrs(rng: &mut Rng, odd: bool) -> Vec<(String, AVal)> {
    // a block without attribute lines is read as a bare type word (`LOADS-REPORT` style): only in the odd stream
    let n = rng.range(if odd { 0 } else { 1 }, 9);
    let mut v: Vec<(String, AVal)> = vec![];
    for _ in 0..n {
        let k = rand_key(rng);
        if v.iter().any(|(kk, _)| *kk == k) && !(odd && rng.chance(1, 8)) {
            continue;
        }
        v.push((k, rand_val(rng, odd)));
    }
    if v.is_empty() && !odd {
        v.push((rand_key(rng), rand_val(rng, odd)));
    }
    v
}

/// a well-nested random document: floors > spaces > walls > windows / constructions, other blocks in between
pub fn rand_doc(rng: &mut Rng, odd: bool) -> Vec<ABlock> {
    let target = rng.range(1, 40);
    let mut out: Vec<ABlock> = vec![];
    let mut names = std::collections::BTreeSet::new();
    let mut fresh = |rng: &mut Rng| loop {
        let s = rand_name(rng, true);
        if names.insert(s.clone()) {
            return s;
        }
    };
    let others: Vec<&'static str> = TYPES.iter().map(|t| t.0).filter(|t| !["FLOOR", "SPACE", "EXTERIOR-WALL", "INTERIOR-WALL", "ROOF", "UNDERGROUND-WALL",
        "UNDERGROUND-FLOOR", "CONSTRUCTION", "WINDOW", "DOOR", "PARTELIDER"].contains(t)).collect();
    let walls = ["EXTERIOR-WALL", "INTERIOR-WALL", "ROOF", "UNDERGROUND-WALL", "UNDERGROUND-FLOOR"];
    let (mut floor, mut space, mut wall): (Option<String>, Option<String>, Option<String>) = (None, None, None);
    if odd && rng.chance(1, 3) {
        // orphans: children before any floor / space / wall (the code's "Default" floor and empty names)
        let t = *rng.pick(&["SPACE", "WINDOW", "EXTERIOR-WALL", "CONSTRUCTION"]);
        let parent = match t {
            "SPACE" => Some("Default".to_string()),
            _ => Some(String::new()),
        };
        let name = fresh(rng);
        if t == "SPACE" {
            space = Some(name.clone());
        } else if t == "EXTERIOR-WALL" {
            wall = Some(name.clone());
        }
        out.push(ABlock { name, btype: t, attrs: rand_attrs(rng, odd), parent });
    }
    while out.len() < target {
        let r = rng.below(100);
        let (t, parent): (&'static str, Option<String>) = if r < 12 || (floor.is_none() && r < 40) {
            ("FLOOR", None)
        } else if r < 30 && floor.is_some() {
            ("SPACE", floor.clone())
        } else if r < 55 && space.is_some() {
            (*rng.pick(&walls), space.clone())
        } else if r < 75 && wall.is_some() {
            (*rng.pick(&["WINDOW", "CONSTRUCTION", "DOOR"]), wall.clone())
        } else {
            (*rng.pick(&others), None)
        };
        let name = fresh(rng);
        match t {
            "FLOOR" => floor = Some(name.clone()),
            "SPACE" => space = Some(name.clone()),
            x if walls.contains(&x) => wall = Some(name.clone()),
            _ => {}
        }
        out.push(ABlock { name, btype: t, attrs: rand_attrs(rng, odd), parent });
    }
    out
}

pub fn rand_layout(rng: &mut Rng) -> Layout {
    Layout {
        crlf: rng.chance(1, 3),
        max_indent: *rng.pick(&[0, 0, 2, 8, 24]),
        tabs: rng.chance(1, 4),
        max_pad: *rng.pick(&[0, 1, 1, 3, 14]),
        trailing: *rng.pick(&[0, 0, 1, 3]),
        comments: *rng.pick(&[0, 0, 60, 250]),
        close_own_line: rng.chance(1, 2),
        header_quotes: !rng.chance(1, 8),
    }
}

fn blanks(rng: &mut Rng, max: usize, tabs: bool) -> String {
    let n = rng.range(0, max);
    (0..n).map(|_| if tabs && rng.chance(1, 3) { '\t' } else { ' ' }).collect()
}

struct Printer<'a> {
    rng: &'a mut Rng,
    lay: &'a Layout,
    out: String,
}

impl<'a> Printer<'a> {
    fn line(&mut self, content: &str) {
        if self.rng.chance(self.lay.comments, 1000) {
            match self.rng.below(4) {
                0 => self.raw("$ comentario = 1 .."),
                1 => self.raw(""),
                2 => self.raw("   "),
                _ => self.raw("$"),
            }
        }
        let ind = blanks(self.rng, self.lay.max_indent, self.lay.tabs);
        let tr = blanks(self.rng, self.lay.trailing, self.lay.tabs);
        let l = format!("{ind}{content}{tr}");
        self.raw(&l);
    }
    fn raw(&mut self, l: &str) {
        self.out.push_str(l);
        self.out.push_str(if self.lay.crlf { "\r\n" } else { "\n" });
    }
    fn eq(&mut self) -> String {
        let a = blanks(self.rng, self.lay.max_pad, self.lay.tabs);
        let b = blanks(self.rng, self.lay.max_pad, self.lay.tabs);
        format!("{a}={b}")
    }
}

/// prints the document; returns the text and, per block, the attribute values as the parser must store them
pub fn print_doc(rng: &mut Rng, lay: &Layout, doc: &[ABlock]) -> (String, Vec<Vec<(String, Value)>>) {
    let mut p = Printer { rng, lay, out: String::new() };
    let mut expected = vec![];
    for b in doc {
        let eq = p.eq();
        let mut head = if lay.header_quotes { format!("\"{}\"{}{}", b.name, eq, b.btype) } else { format!("{}{}{}", b.name, eq, b.btype) };
        // the two preamble markers are exact texts: never print them by accident
        if head == "\"DATOS GENERALES\" = GENERAL-DATA" || head == "\"Defecto\" = DESCRIPTION" {
            head = head.replace(" = ", "  =  ");
        }
        p.line(&head);
        let mut exp: Vec<(String, Value)> = vec![];
        for (k, v) in &b.attrs {
            let eq = p.eq();
            let stored: Value = match v {
                AVal::Num(lit) => {
                    p.line(&format!("{k}{eq}{lit}"));
                    json!({"n": num_json(lit.parse::<f32>().expect("numeric literal"))})
                }
                AVal::Str(s, quoted) => {
                    if *quoted {
                        p.line(&format!("{k}{eq}\"{s}\""));
                    } else {
                        p.line(&format!("{k}{eq}{s}"));
                    }
                    match s.parse::<f32>() {
                        Ok(x) => json!({"n": num_json(x)}), // inf / nan words are numbers to the parser
                        Err(_) => json!({"s": s}),
                    }
                }
                AVal::List(items, multi) => {
                    // a continuation line that starts with `+` or `$` is dropped by the line filter: keep such lists on one line
                    if !*multi || items.len() < 2 || items.iter().any(|i| i.starts_with('+') || i.starts_with('$')) {
                        let s = format!("( {})", items.join(", "));
                        p.line(&format!("{k}{eq}{s}"));
                        json!({"s": s})
                    } else {
                        // one item per line; the pieces are joined without separator after trimming
                        let mut pieces = vec![format!("( {},", items[0])];
                        for (i, it) in items.iter().enumerate().skip(1) {
                            let last = i + 1 == items.len();
                            if last && !lay.close_own_line {
                                pieces.push(format!("{it})"));
                            } else if last {
                                pieces.push(it.to_string());
                                pieces.push(")".to_string());
                            } else {
                                pieces.push(format!("{it},"));
                            }
                        }
                        p.line(&format!("{k}{eq}{}", pieces[0]));
                        for piece in &pieces[1..] {
                            p.line(piece);
                        }
                        json!({"s": pieces.join("")})
                    }
                }
            };
            if let Some(e) = exp.iter_mut().find(|(kk, _)| kk == k) {
                e.1 = stored;
            } else {
                exp.push((k.clone(), stored));
            }
        }
        p.line("..");
        expected.push(exp);
    }
    (p.out, expected)
}

fn expected_json(doc: &[ABlock], exp: &[Vec<(String, Value)>]) -> Value {
    let v: Vec<Value> = doc
        .iter()
        .zip(exp)
        .map(|(b, e)| {
            let variant = TYPES.iter().find(|t| t.0 == b.btype).map(|t| t.1).unwrap_or("?");
            json!({"btype": variant, "name": b.name, "parent": b.parent, "attrs": e.iter().map(|(k, v)| json!([k, v])).collect::<Vec<_>>()})
        })
        .collect();
    json!(v)
}

/// re-print parsed blocks in a new layout (blocks whose values cannot be written back unambiguously are left out)
fn reprint(rng: &mut Rng, lay: &Layout, blocks: &[hulc::bdl::BdlBlock]) -> (Vec<ABlock>, usize) {
    let mut doc = vec![];
    let mut skipped = 0;
    'b: for b in blocks {
        let btype = match TYPES.iter().find(|t| t.1 == format!("{:?}", b.btype)) {
            Some(t) => t.0,
            None => {
                skipped += 1;
                continue;
            }
        };
        if b.name.contains('"') || b.name.contains('=') || b.name.contains("..") || b.name.trim() != b.name || b.name.is_empty() {
            skipped += 1;
            continue;
        }
        let mut attrs = vec![];
        for k in b.attrs.0.keys() {
            if k.contains('=') || k.trim() != k || k.is_empty() || k.starts_with('$') || k.starts_with('+') || k.starts_with('"') || k.contains("..") {
                skipped += 1;
                continue 'b;
            }
            let av = match (b.attrs.get_f32(k), b.attrs.get_str(k)) {
                (Ok(x), _) => AVal::Num(format!("{}", x)),
                (_, Err(_)) => {
                    skipped += 1;
                    continue 'b;
                }
                (_, Ok(s)) => {
                    if s.starts_with('(') && s.ends_with(')') && !s.contains("..") {
                        AVal::Str(s.clone(), false)
                    } else if s.contains('"') || s.contains("..") || s.starts_with('(') {
                        skipped += 1;
                        continue 'b;
                    } else {
                        let must_quote = s.is_empty() || s.contains(' ') || s.contains('\t');
                        AVal::Str(s.clone(), must_quote || lay.header_quotes)
                    }
                }
            };
            attrs.push((k.clone(), av));
        }
        let _ = rng;
        doc.push(ABlock { name: b.name.clone(), btype, attrs, parent: b.parent.clone() });
    }
    (doc, skipped)
}

pub fn real_texts() -> Vec<(String, String)> {
    let mut v = vec![];
    for d in crate::corpus::project_dirs() {
        if let Ok(rd) = std::fs::read_dir(&d) {
            let mut fs: Vec<_> = rd.flatten().map(|e| e.path()).collect();
            fs.sort();
            for p in fs {
                if p.to_string_lossy().to_lowercase().ends_with(".ctehexml") {
                    if let Some(t) = std::fs::read(&p).ok().and_then(|b| bdl_section(&decode(&b))) {
                        v.push((p.file_name().unwrap().to_string_lossy().to_string(), t));
                    }
                }
            }
        }
    }
    for p in crate::corpus::lider_files() {
        if let Ok(b) = std::fs::read(&p) {
            v.push((p.file_name().unwrap().to_string_lossy().to_string(), decode(&b)));
        }
    }
    if let Ok(f) = std::fs::File::open("/repo/hulc/src/ctehexml/BDCatalogo.bdc.utf8.gz") {
        let mut s = String::new();
        if flate2::read::GzDecoder::new(f).read_to_string(&mut s).is_ok() {
            v.push(("BDCatalogo.bdc".to_string(), s));
        }
    }
    v
}

/// observation of `hulc::bdl::Data::new`: the typed elements
pub fn observe_data(text: &str) -> Value {
    use hulc::bdl::Schedule;
    let n = num_json;
    let pts2 = |p: &hulc::bdl::Polygon| p.0.iter().map(|q| json!([n(q.x), n(q.y)])).collect::<Vec<_>>();
    match std::panic::catch_unwind(std::panic::AssertUnwindSafe(|| hulc::bdl::Data::new(text))) {
        Err(_) => json!({"panic": true}),
        Ok(Err(e)) => json!({"err": format!("{e:#}").chars().take(160).collect::<String>()}),
        Ok(Ok(d)) => json!({"ok": {
            "materials": d.db.materials.iter().map(|(k, m)| json!({"key": k, "name": m.name, "group": m.group,
                "properties": m.properties.map(|p| json!([on(p.thickness), n(p.conductivity), n(p.density), n(p.specificheat), on(p.vapourdiffusivity)])), "resistance": on(m.resistance)})).collect::<Vec<_>>(),
            "glasses": d.db.glasses.iter().map(|(k, g)| json!({"key": k, "name": g.name, "group": g.group, "conductivity": n(g.conductivity), "g_gln": n(g.g_gln)})).collect::<Vec<_>>(),
            "frames": d.db.frames.iter().map(|(k, f)| json!({"key": k, "name": f.name, "group": f.group, "conductivity": n(f.conductivity), "absorptivity": n(f.absorptivity), "width": n(f.width)})).collect::<Vec<_>>(),
            "wallcons": d.db.wallcons.iter().map(|(k, c)| json!({"key": k, "name": c.name, "group": c.group, "material": c.material,
                "thickness": c.thickness.iter().map(|x| n(*x)).collect::<Vec<_>>(), "absorptance": n(c.absorptance)})).collect::<Vec<_>>(),
            "wincons": d.db.wincons.iter().map(|(k, c)| json!({"key": k, "name": c.name, "group": c.group, "glass": c.glass, "frame": c.frame, "framefrac": n(c.framefrac),
                "infcoeff": n(c.infcoeff), "deltau": n(c.deltau), "gglshwi": on(c.gglshwi)})).collect::<Vec<_>>(),
            "spaces": d.spaces.iter().map(|s| json!({"name": s.name, "stype": s.stype, "polygon": pts2(&s.polygon), "height": n(s.height), "x": n(s.x), "y": n(s.y), "z": n(s.z),
                "angle": n(s.angle_with_building_north), "insidete": s.insidete, "floor": s.floor, "power": n(s.power), "veei_obj": n(s.veei_obj), "veei_ref": n(s.veei_ref),
                "spacetype": s.spacetype, "spaceconds": s.spaceconds, "systemconds": s.systemconds, "floor_multiplier": n(s.floor_multiplier), "multiplier": n(s.multiplier),
                "ismultiplied": s.ismultiplied, "airchanges_h": on(s.airchanges_h)})).collect::<Vec<_>>(),
            "walls": d.walls.iter().map(|w| json!({"name": w.name, "space": w.space, "cons": w.cons, "location": w.location, "x": n(w.x), "y": n(w.y), "z": n(w.z),
                "angle": n(w.angle_with_space_north), "tilt": n(w.tilt), "polygon": w.polygon.as_ref().map(|p| pts2(p)), "bounds": format!("{:?}", w.bounds), "nextto": w.nextto})).collect::<Vec<_>>(),
            "windows": d.windows.iter().map(|w| json!({"name": w.name, "wall": w.wall, "cons": w.cons, "x": n(w.x), "y": n(w.y), "height": n(w.height), "width": n(w.width),
                "setback": n(w.setback), "coefs": w.coefs.as_ref().map(|c| c.iter().map(|x| n(*x)).collect::<Vec<_>>()),
                "overhang": w.overhang.as_ref().map(|o| json!([n(o.a), n(o.b), n(o.depth), n(o.width), n(o.angle)])),
                "left_fin": w.left_fin.as_ref().map(|f| json!([n(f.a), n(f.b), n(f.depth), n(f.height)])),
                "right_fin": w.right_fin.as_ref().map(|f| json!([n(f.a), n(f.b), n(f.depth), n(f.height)]))})).collect::<Vec<_>>(),
            "thermal_bridges": d.thermal_bridges.iter().map(|t| json!({"name": t.name, "length": on(t.length), "psi": n(t.psi), "frsi": n(t.frsi), "tbtype": t.tbtype})).collect::<Vec<_>>(),
            "shadings": d.shadings.iter().map(|s| json!({"name": s.name, "tran": n(s.tran), "refl": n(s.refl),
                "rect": s.geometry.as_ref().map(|g| json!([n(g.x), n(g.y), n(g.z), n(g.height), n(g.width), n(g.azimuth), n(g.tilt)])),
                "verts": s.vertices.as_ref().map(|v| v.iter().map(|p| json!([n(p.x), n(p.y), n(p.z)])).collect::<Vec<_>>())})).collect::<Vec<_>>(),
            "schedules": d.schedules.iter().map(|s| match s {
                Schedule::Day(x) => json!({"kind": "day", "name": x.name, "type": format!("{:?}", x.kind), "values": x.values.iter().map(|v| n(*v)).collect::<Vec<_>>()}),
                Schedule::Week(x) => json!({"kind": "week", "name": x.name, "type": format!("{:?}", x.kind), "days": x.days}),
                Schedule::Year(x) => json!({"kind": "year", "name": x.name, "type": format!("{:?}", x.kind), "days": x.days, "months": x.months, "weeks": x.weeks}),
            }).collect::<Vec<_>>(),
            "space_conditions": d.space_conditions.keys().collect::<Vec<_>>(), "system_conditions": d.system_conditions.keys().collect::<Vec<_>>(),
            "meta": d.meta.keys().map(|k| format!("{:?}", k)).collect::<Vec<_>>(),
        }}),
    }
}

fn on(x: Option<f32>) -> Value {
    x.map_or(Value::Null, num_json)
}

/// observation of `hulc::kyg::parse`
fn observe_kyg(text: &str) -> Value {
    match std::panic::catch_unwind(std::panic::AssertUnwindSafe(|| hulc::kyg::parse(text))) {
        Err(_) => json!({"panic": true}),
        Ok(Err(e)) => json!({"err": format!("{e:#}").chars().take(120).collect::<String>()}),
        Ok(Ok(k)) => json!({"ok": {
            "k": num_json(k.k),
            "windows": k.windows.values().map(|w| json!({"name": w.name, "orientation": w.orientation, "a": num_json(w.a), "u": num_json(w.u), "ff": num_json(w.ff),
                "azimuth_n": num_json(w.azimuth_n), "fshobst": num_json(w.fshobst),
                "extra": if w.cons.is_some() { json!([on(w.ggln), on(w.unknown1), on(w.unknown2), on(w.infcoeff_100), w.cons]) } else { Value::Null }})).collect::<Vec<_>>(),
            "walls": k.walls.values().map(|w| json!({"name": w.name, "a": num_json(w.a), "u": num_json(w.u), "btrx": num_json(w.btrx),
                "extra": if w.cons.is_some() { json!([w.wtype, w.orientation, w.cons]) } else { Value::Null }})).collect::<Vec<_>>(),
            "tbs": k.thermal_bridges.values().map(|t| json!({"name": t.name, "l": num_json(t.l), "psi": num_json(t.psi), "sisdim": t.sisdim})).collect::<Vec<_>>(),
            "hfactors": k.hfactors.iter().map(|x| num_json(*x)).collect::<Vec<_>>(),
        }}),
    }
}

/// observation of `hulc::tbl::parse` (it reads a Latin-1 file: the text is written to a scratch file first)
fn observe_tbl(text: &str, scratch: &std::path::Path) -> Value {
    let bytes: Vec<u8> = text.chars().map(|c| if (c as u32) < 256 { c as u8 } else { b'?' }).collect();
    if std::fs::write(scratch, bytes).is_err() {
        return json!({"err": "scratch"});
    }
    match std::panic::catch_unwind(std::panic::AssertUnwindSafe(|| hulc::tbl::parse(scratch))) {
        Err(_) => json!({"panic": true}),
        Ok(Err(e)) => json!({"err": format!("{e:#}").chars().take(120).collect::<String>()}),
        Ok(Ok(t)) => json!({"ok": {
            "elements": t.elements.iter().map(|(k, e)| json!({"key": k, "name": e.name, "nums": [num_json(e.area), num_json(e.u), num_json(e.w_or_inf), num_json(e.g_winter),
                num_json(e.g_summer), num_json(e.ang_north), num_json(e.tilt)], "type": format!("{:?}", e.type_), "id_surf": e.id_surf, "id_space": e.id_space})).collect::<Vec<_>>(),
            "spaces": t.spaces.iter().map(|(k, sp)| json!({"key": k, "name": sp.name, "id_space": sp.id_space, "mult": sp.mult, "area": num_json(sp.area), "qint": num_json(sp.qint)})).collect::<Vec<_>>(),
        }}),
    }
}

fn rnd(rng: &mut Rng, lo: f64, hi: f64, dec: u32, comma: bool) -> String {
    let x = rng.f(lo, hi, dec);
    fmt_num(rng, x, comma)
}

fn pickf(rng: &mut Rng, xs: &[f32]) -> String {
    let x = *rng.pick(xs);
    fmt_num(rng, x, false)
}

fn fmt_num(rng: &mut Rng, x: f32, comma: bool) -> String {
    let s = match rng.below(3) {
        0 => format!("{:.2}", x),
        1 => format!("{:.6}", x),
        _ => format!("{}", x),
    };
    if comma { s.replace('.', ",") } else { s }
}

/// a random KyGananciasSolares.txt in the old (short) or new (long) column layout, with either decimal separator
fn gen_kyg(rng: &mut Rng) -> String {
    let new_layout = rng.chance(1, 2);
    let comma_pt = rng.chance(2, 3);
    let mut s = String::from("###;Datos para Factor de Pérdidas\n");
    let nw = rng.range(1, 6);
    let mut wins = vec![];
    for i in 0..nw {
        let wall = format!("P01_E01_PE{:03}", i + 1);
        for j in 0..rng.range(0, 2) {
            let name = format!("{}_V{}", wall, j + 1);
            let o = *rng.pick(&["S ", "N ", "E ", "O ", "SO", "NE", "H "]);
            let mut l = format!("Ventana;{};{};{};{};{}", name, rnd(rng, 0.5, 6.0, 2, false), rnd(rng, 0.8, 5.7, 2, false), o, rnd(rng, 0.0, 40.0, 2, false));
            if new_layout {
                l.push_str(&format!(";{};-1.00;1.00;{};Doble -- Mrpt", rnd(rng, 0.2, 0.9, 2, false), rnd(rng, 3.0, 50.0, 2, false)));
            } else {
                l.push_str(&format!(";{};-1.00;1.00", rnd(rng, 0.2, 0.9, 2, false)));
            }
            s.push_str(&l);
            s.push('\n');
            wins.push(name);
        }
        let mut l = format!("Muro;{};{};{};{}", wall, rnd(rng, 3.0, 90.0, 2, false), rnd(rng, 0.15, 3.0, 2, false), rnd(rng, 0.0, 1.0, 2, false));
        if new_layout {
            l.push_str(";Fachada;S ;Fachada por defecto D");
        } else if rng.chance(1, 2) {
            l.push_str(";Muro Exterior");
        }
        s.push_str(&l);
        s.push('\n');
    }
    for n in ["UNION_CUBIERTA", "ESQUINA_CONVEXA_CERRAMIENTO", "HUECO_VENTANA"] {
        if rng.chance(2, 3) {
            let mut l = format!("PPTT;{};{};{}", rnd(rng, 0.0, 80.0, 2, comma_pt), rnd(rng, 0.01, 1.2, 3, comma_pt), n);
            if new_layout {
                l.push_str(";SDINT");
            }
            s.push_str(&l);
            s.push('\n');
        }
    }
    s.push_str(&format!("Coeficiente K = ;{}\n", rnd(rng, 0.2, 3.0, 3, comma_pt)));
    s.push_str("###;Datos para Factor de Insolación\n");
    for i in 0..9 {
        s.push_str(&format!("{} ; {}\n", i, rnd(rng, 20.0, 250.0, 3, false)));
    }
    for w in &wins {
        let htot = rng.f(1000.0, 90000.0, 2);
        let h3 = htot * rng.f(0.1, 1.0, 3);
        s.push_str(&format!("\"{}\"; {}; {}; {}; {}; {}; {}; {}\n", w, pickf(rng, &[0.0, 45.0, 90.0, 180.0, 270.0]), fmt_num(rng, 2.0, false),
            fmt_num(rng, htot, false), fmt_num(rng, htot, false), fmt_num(rng, h3, false), fmt_num(rng, h3, false), fmt_num(rng, h3 * 0.9, false)));
    }
    s.push_str("###;Fin\n###\n### DOCUMENTACIÓN\n");
    if rng.chance(1, 3) {
        s = s.replace('\n', "\r\n");
    }
    s
}

fn gen_tbl(rng: &mut Rng) -> String {
    let ne = rng.range(1, 12);
    let ns = rng.range(1, 3);
    let mut s = format!("Nombre\r\n A U p f fv angNorte tilt tipo codigo0 codigo1\r\n{} {}\r\n", ne, ns);
    for i in 0..ne {
        let t = *rng.pick(&["0", "1", "2", "-2", "-3", "-4", "-5"]);
        s.push_str(&format!("\"P01_E01_PE{:03}\"\r\n {} {} {} {} {} {} {} {} {} {}\r\n", i + 1, rnd(rng, 1.0, 90.0, 2, false), rnd(rng, 0.2, 4.0, 2, false),
            rnd(rng, 0.0, 250.0, 2, false), rnd(rng, 0.0, 0.9, 2, false), rnd(rng, 0.0, 0.9, 2, false), pickf(rng, &[0.0, 90.0, 180.0, 270.0]),
            pickf(rng, &[0.0, 90.0, 180.0]), t, i, if rng.chance(1, 2) { -1 } else { 1 }));
    }
    for i in 0..ns {
        s.push_str(&format!("\"P01_E{:02}\"\r\n {} {} {} {}\r\n", i + 1, i as i32 - 1, rng.range(1, 3), rnd(rng, 5.0, 200.0, 2, false), rnd(rng, 0.0, 10.0, 3, false)));
    }
    s
}

fn aux_files(name: &str) -> Vec<(String, String)> {
    let mut v = vec![];
    for d in crate::corpus::project_dirs() {
        let p = d.join(name);
        if let Ok(b) = std::fs::read(&p) {
            // both files are Latin-1
            let text: String = b.iter().map(|c| *c as char).collect();
            v.push((format!("{}/{}", d.file_name().unwrap().to_string_lossy(), name), text));
        }
    }
    v
}

fn aux_cases(cw: &mut CaseWriter, rng: &mut Rng, n: usize, out: &str) {
    let scratch = std::path::Path::new(out).join("scratch.tbl");
    let damage_line = |rng: &mut Rng, text: &str| -> Option<String> {
        let lines: Vec<&str> = text.lines().collect();
        if lines.is_empty() {
            return None;
        }
        let li = rng.below(lines.len());
        let kind = *rng.pick(&["delete", "duplicate", "swap-next", "num-to-text", "num-to-huge", "num-to-negative", "truncate-here"]);
        crate::props::c19::damage(&lines, li, kind, text.len())
    };
    for (label, text) in aux_files("KyGananciasSolares.txt") {
        cw.write(json!({"op": "kyg", "kind": "kyg-real", "label": label, "text": text, "impl": observe_kyg(&text)}));
        for _ in 0..4 {
            if let Some(t2) = damage_line(rng, &text) {
                cw.write(json!({"op": "kyg", "kind": "kyg-damaged", "label": format!("{label}:damaged"), "text": t2, "impl": observe_kyg(&t2)}));
            }
        }
    }
    for (label, text) in aux_files("NewBDL_O.tbl") {
        cw.write(json!({"op": "tbl", "kind": "tbl-real", "label": label, "text": text, "impl": observe_tbl(&text, &scratch)}));
        for _ in 0..4 {
            if let Some(t2) = damage_line(rng, &text) {
                cw.write(json!({"op": "tbl", "kind": "tbl-damaged", "label": format!("{label}:damaged"), "text": t2, "impl": observe_tbl(&t2, &scratch)}));
            }
        }
    }
    for i in 0..n {
        let t = gen_kyg(rng);
        cw.write(json!({"op": "kyg", "kind": "kyg-generated", "label": format!("kyg{i}"), "text": t, "impl": observe_kyg(&t)}));
        if i % 3 == 0 {
            if let Some(t2) = damage_line(rng, &t) {
                cw.write(json!({"op": "kyg", "kind": "kyg-damaged", "label": format!("kyg{i}:damaged"), "text": t2, "impl": observe_kyg(&t2)}));
            }
        }
        let t = gen_tbl(rng);
        cw.write(json!({"op": "tbl", "kind": "tbl-generated", "label": format!("tbl{i}"), "text": t, "impl": observe_tbl(&t, &scratch)}));
        if i % 3 == 0 {
            if let Some(t2) = damage_line(rng, &t) {
                cw.write(json!({"op": "tbl", "kind": "tbl-damaged", "label": format!("tbl{i}:damaged"), "text": t2, "impl": observe_tbl(&t2, &scratch)}));
            }
        }
    }
    std::fs::remove_file(&scratch).ok();
}

pub fn run(args: &Args) -> i32 {
    let mut cw = CaseWriter::new(&args.out, "cases.jsonl");
    let mut rng = Rng::new(args.seed ^ 0xC18);
    let thorough = args.tier == "thorough";
    aux_cases(&mut cw, &mut rng.fork(7), args.n / 4, &args.out);
    // typed elements (`Data::new`): shipped documents (a third of them per quick run), generated projects, damaged projects
    {
        let mut r2 = rng.fork(11);
        for (i, (label, text)) in real_texts().iter().enumerate() {
            if thorough || i % 3 == (args.seed as usize) % 3 {
                cw.write(json!({"op": "bdldata", "kind": "typed-real", "label": label, "text": text, "impl": observe_data(text)}));
            }
        }
        for i in 0..args.n / 8 {
            let p = crate::bdlgen::gen_proj(&mut r2, &crate::bdlgen::GenOpts { rotated_spaces: i % 3 == 2, polygon_outlines: i % 2 == 1 });
            let text = crate::bdlgen::print_proj(&p);
            cw.write(json!({"op": "bdldata", "kind": "typed-generated", "label": format!("proj{i}"), "text": text, "description": serde_json::to_value(&p).ok(), "impl": observe_data(&text)}));
            let lines: Vec<&str> = text.lines().collect();
            for _ in 0..4 {
                let li = r2.below(lines.len());
                let kind = *r2.pick(&["delete", "duplicate", "swap-next", "remove-block", "num-to-text", "num-to-huge", "num-to-big", "num-to-negative", "rename-ref", "truncate-here"]);
                if let Some(t2) = crate::props::c19::damage(&lines, li, kind, text.len()) {
                    cw.write(json!({"op": "bdldata", "kind": "typed-damaged", "label": format!("proj{i}:{kind}@{li}"), "text": t2, "impl": observe_data(&t2)}));
                }
            }
        }
    }
    // 1. real files, as they are and re-printed
    let reals = real_texts();
    for (i, (label, text)) in reals.iter().enumerate() {
        cw.write(json!({"op": "bdlblocks", "kind": "real", "label": label, "text": text, "impl": observe(text)}));
        let reprints = if thorough { 3 } else if i % 4 == (args.seed as usize) % 4 { 1 } else { 0 };
        if let Ok(blocks) = build_blocks(text) {
            for r in 0..reprints {
                let lay = rand_layout(&mut rng);
                let (doc, skipped) = reprint(&mut rng, &lay, &blocks);
                let (t2, exp) = print_doc(&mut rng, &lay, &doc);
                cw.write(json!({"op": "bdlblocks", "kind": "reprint", "label": format!("{label}#{r}"), "text": t2, "layout": format!("{lay:?}"),
                    "skipped_blocks": skipped, "expected": expected_json(&doc, &exp), "impl": observe(&t2)}));
            }
        }
    }
    // 2. generated documents
    for i in 0..args.n {
        let odd = i % 3 == 2;
        let doc = rand_doc(&mut rng, odd);
        let lay = rand_layout(&mut rng);
        let (text, exp) = print_doc(&mut rng, &lay, &doc);
        let dup_keys = doc.iter().any(|b| {
            let mut ks: Vec<&String> = b.attrs.iter().map(|a| &a.0).collect();
            ks.sort();
            ks.windows(2).any(|w| w[0] == w[1])
        });
        cw.write(json!({"op": "bdlblocks", "kind": if odd { "generated-odd" } else { "generated" }, "label": format!("gen{i}"), "text": text,
            "layout": format!("{lay:?}"), "dup_keys": dup_keys, "expected": if odd { Value::Null } else { expected_json(&doc, &exp) }, "impl": observe(&text)}));
        // 3. the same document damaged by one edit: the parser and the model must agree on accept / reject and on what is read
        if i % 2 == 0 {
            let lines: Vec<&str> = text.lines().collect();
            if !lines.is_empty() {
                for _ in 0..3 {
                    let li = rng.below(lines.len());
                    let kind = *rng.pick(&["delete", "duplicate", "swap-next", "remove-block", "num-to-text", "rename-ref", "truncate-here", "drop-eq", "drop-quote", "add-dots"]);
                    let t2 = match kind {
                        "drop-eq" => lines[li].find('=').map(|p| {
                            let mut v: Vec<String> = lines.iter().map(|s| s.to_string()).collect();
                            v[li].remove(p);
                            v.join("\n")
                        }),
                        "drop-quote" => lines[li].find('"').map(|p| {
                            let mut v: Vec<String> = lines.iter().map(|s| s.to_string()).collect();
                            v[li].remove(p);
                            v.join("\n")
                        }),
                        "add-dots" => {
                            let mut v: Vec<String> = lines.iter().map(|s| s.to_string()).collect();
                            v[li].push_str("..");
                            Some(v.join("\n"))
                        }
                        k => crate::props::c19::damage(&lines, li, k, text.len()),
                    };
                    if let Some(t2) = t2 {
                        cw.write(json!({"op": "bdlblocks", "kind": "damaged", "label": format!("gen{i}:{kind}@{li}"), "text": t2, "impl": observe(&t2)}));
                    }
                }
            }
        }
    }
    cw.finish();
    0
}
