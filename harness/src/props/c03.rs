//! C03: conversion preserves the building's geometry and orientation conventions.
//! Observation: the parsed source (`hulc::bdl::Data`) and the converted model's geometry pushed through
//! `WallGeom::to_global_coords_matrix`; the same project re-converted with its global deviation turned by an angle.
use crate::bdlgen;
use crate::corpus::{guarded, Outcome};
use crate::props::CaseWriter;
use crate::rng::Rng;
use crate::Args;
use bemodel::Model;
use hulc::bdl::Data;
use nalgebra::point;
use serde_json::{json, Value};

fn with_catalog(mut d: Data, cat: &hulc::bdl::DB) -> Data {
    d.db.materials.extend(cat.materials.clone());
    d.db.wallcons.extend(cat.wallcons.clone());
    d.db.wincons.extend(cat.wincons.clone());
    d.db.glasses.extend(cat.glasses.clone());
    d.db.frames.extend(cat.frames.clone());
    d
}

fn f(x: f32) -> Value {
    if x.is_finite() {
        json!(x as f64)
    } else {
        Value::Null
    }
}

/// geometry as written in the project
fn source_geometry(d: &Data) -> Value {
    let g = d.meta.get(&hulc::bdl::BdlBlockType::BuildParameters).map(|b| b.attrs.get_f32_or_default("AZIMUTH")).unwrap_or(0.0);
    let spaces: Vec<Value> = d
        .spaces
        .iter()
        .map(|s| json!({"name": s.name, "pts": s.polygon.0.iter().map(|p| json!([f(p.x), f(p.y)])).collect::<Vec<_>>(), "x": f(s.x), "y": f(s.y), "z": f(s.z),
                        "height": f(s.height), "angle": f(s.angle_with_building_north), "floor": s.floor}))
        .collect();
    // (cos, sin) of an angle in degrees, in double precision: the model works on these pairs
    let cs = |deg: f32| {
        let r = (deg as f64).to_radians();
        json!([r.cos(), r.sin()])
    };
    let walls: Vec<Value> = d
        .walls
        .iter()
        .map(|w| {
            let sp = d.spaces.iter().find(|s| s.name == w.space);
            let edge = match (w.location.as_deref(), sp) {
                (Some(loc), Some(sp)) if loc != "TOP" && loc != "BOTTOM" => sp.polygon.edge_vertices(loc).map(|[p1, p2]| {
                    let (dx, dy) = ((p2.x - p1.x) as f64, (p2.y - p1.y) as f64);
                    json!({"p1": [f(p1.x), f(p1.y)], "width": (dx * dx + dy * dy).sqrt()})
                }),
                _ => None,
            };
            json!({"name": w.name, "space": w.space, "location": w.location, "x": f(w.x), "y": f(w.y), "z": f(w.z), "tilt": f(w.tilt),
                   "angle": f(w.angle_with_space_north), "pts": w.polygon.as_ref().map(|p| p.0.iter().map(|q| json!([f(q.x), f(q.y)])).collect::<Vec<_>>()),
                   "bounds": format!("{:?}", w.bounds), "nextto": w.nextto, "edge": edge,
                   "trig": {"g": cs(g), "a": cs(sp.map_or(0.0, |s| s.angle_with_building_north)), "w": cs(w.angle_with_space_north), "t": cs(w.tilt)}})
        })
        .collect();
    let windows: Vec<Value> = d.windows.iter().map(|w| json!({"name": w.name, "wall": w.wall, "x": f(w.x), "y": f(w.y), "w": f(w.width), "h": f(w.height), "setback": f(w.setback),
        "overhang": w.overhang.as_ref().map(|o| json!({"a": f(o.a), "b": f(o.b), "depth": f(o.depth), "width": f(o.width), "angle": f(o.angle), "trig": cs(o.angle)}))})).collect();
    let shades: Vec<Value> = d
        .shadings
        .iter()
        .map(|s| {
            json!({"name": s.name,
                "rect": s.geometry.as_ref().map(|g| json!({"x": f(g.x), "y": f(g.y), "z": f(g.z), "height": f(g.height), "width": f(g.width), "azimuth": f(g.azimuth), "tilt": f(g.tilt)})),
                "trig": s.geometry.as_ref().map(|sg| json!({"g": cs(g), "a": cs(sg.azimuth), "t": cs(sg.tilt)})),
                "verts": s.vertices.as_ref().map(|v| v.iter().map(|p| json!([f(p.x), f(p.y), f(p.z)])).collect::<Vec<_>>())})
        })
        .collect();
    json!({"global_deviation": f(g), "trig_g": cs(g), "spaces": spaces, "walls": walls, "windows": windows, "shades": shades})
}

fn geom_json(g: &bemodel::WallGeom) -> Value {
    let cs = |deg: f32| json!([(deg as f64).to_radians().cos(), (deg as f64).to_radians().sin()]);
    let corners: Option<Vec<Value>> = g.to_global_coords_matrix().map(|m| {
        g.polygon
            .iter()
            .map(|p| {
                let q = m * point![p.x, p.y, 0.0];
                json!([f(q.x), f(q.y), f(q.z)])
            })
            .collect()
    });
    json!({"tilt": f(g.tilt), "azimuth": f(g.azimuth), "trig": {"az": cs(g.azimuth), "t": cs(g.tilt)}, "position": g.position.map(|p| json!([f(p.x), f(p.y), f(p.z)])),
           "polygon": g.polygon.iter().map(|p| json!([f(p.x), f(p.y)])).collect::<Vec<_>>(), "corners": corners})
}

/// geometry of the converted model, in global coordinates
fn model_geometry(m: &Model, with_indicators: bool) -> Value {
    let wall_name = |id: bemodel::Uuid| m.walls.iter().find(|w| w.id == id).map(|w| w.name.clone());
    let space_name = |id: bemodel::Uuid| m.spaces.iter().find(|s| s.id == id).map(|s| s.name.clone());
    let walls: Vec<Value> = m.walls.iter().map(|w| json!({"name": w.name, "space": space_name(w.space), "bounds": format!("{:?}", w.bounds), "geometry": geom_json(&w.geometry)})).collect();
    let windows: Vec<Value> = m
        .windows
        .iter()
        .map(|w| json!({"name": w.name, "wall": wall_name(w.wall), "position": w.geometry.position.map(|p| json!([f(p.x), f(p.y)])), "width": f(w.geometry.width),
                        "height": f(w.geometry.height), "setback": f(w.geometry.setback)}))
        .collect();
    let shades: Vec<Value> = m.shades.iter().map(|s| json!({"name": s.name, "geometry": geom_json(&s.geometry)})).collect();
    let spaces: Vec<Value> = m.spaces.iter().map(|s| json!({"name": s.name, "z": f(s.z), "height": f(s.height)})).collect();
    let ind = if with_indicators {
        match guarded(|| Ok(m.energy_indicators())) {
            Outcome::Ok(i) => {
                let v = serde_json::to_value(&i).unwrap_or(Value::Null);
                let props = &v["props"];
                let u: std::collections::BTreeMap<String, Value> = props["walls"]
                    .as_object()
                    .map(|o| o.iter().map(|(k, w)| (m.walls.iter().find(|x| x.id.to_string() == *k).map(|x| x.name.clone()).unwrap_or(k.clone()), w["u_value"].clone())).collect())
                    .unwrap_or_default();
                let areas: std::collections::BTreeMap<String, Value> = props["walls"]
                    .as_object()
                    .map(|o| o.iter().map(|(k, w)| (m.walls.iter().find(|x| x.id.to_string() == *k).map(|x| x.name.clone()).unwrap_or(k.clone()), w["area_net"].clone())).collect())
                    .unwrap_or_default();
                json!({"area_ref": v["area_ref"], "compactness": v["compactness"], "vol_env_net": v["vol_env_net"], "vol_env_gross": v["vol_env_gross"], "K": v["K_data"]["K"],
                       "n50": v["n50_data"]["n50"], "wall_u": u, "wall_area_net": areas})
            }
            _ => Value::Null,
        }
    } else {
        Value::Null
    };
    json!({"walls": walls, "windows": windows, "shades": shades, "spaces": spaces, "indicators": ind})
}

/// the text with the global deviation (BUILD-PARAMETERS AZIMUTH) set to `g`
fn set_deviation(text: &str, g: f32) -> Option<String> {
    let lines: Vec<&str> = text.lines().collect();
    let start = lines.iter().position(|l| l.contains("= BUILD-PARAMETERS"))?;
    let end = (start..lines.len()).find(|&j| lines[j].trim() == "..")?;
    let mut out: Vec<String> = lines.iter().map(|s| s.to_string()).collect();
    if let Some(j) = (start + 1..end).find(|&j| lines[j].trim_start().starts_with("AZIMUTH") && lines[j].contains('=')) {
        out[j] = format!("           AZIMUTH   = {}", g);
    } else {
        out.insert(start + 1, format!("           AZIMUTH   = {}", g));
    }
    Some(out.join("\n"))
}

fn observe(text: &str, cat: Option<&hulc::bdl::DB>, with_indicators: bool) -> Value {
    let data = match guarded(|| Data::new(text)) {
        Outcome::Ok(d) => match cat {
            Some(c) => with_catalog(d, c),
            None => d,
        },
        Outcome::Err(e) => return json!({"outcome": "parse-err", "msg": e.chars().take(160).collect::<String>()}),
        Outcome::Panic(e) => return json!({"outcome": "parse-panic", "msg": e.chars().take(160).collect::<String>()}),
    };
    let src = source_geometry(&data);
    let cd = hulc::ctehexml::CtehexmlData { bdldata: data, ..Default::default() };
    match guarded(|| Model::try_from(&cd)) {
        Outcome::Ok(m) => json!({"outcome": "ok", "source": src, "model": model_geometry(&m, with_indicators)}),
        Outcome::Err(e) => json!({"outcome": "err", "source": src, "msg": e.chars().take(160).collect::<String>()}),
        Outcome::Panic(e) => json!({"outcome": "panic", "source": src, "msg": e.chars().take(160).collect::<String>()}),
    }
}

pub fn run(args: &Args) -> i32 {
    let mut cw = CaseWriter::new(&args.out, "cases.jsonl");
    let mut rng = Rng::new(args.seed ^ 0xC03);
    let thorough = args.tier == "thorough";
    let cat = hulc::ctehexml::load_lider_catalog().unwrap_or_default();
    let reals = crate::props::c18::real_texts();
    let mut texts: Vec<(String, String, bool, Option<Value>)> = reals.into_iter().filter(|(l, _)| l != "BDCatalogo.bdc").map(|(l, t)| (l, t, true, None)).collect();
    for i in 0..args.n {
        let p = bdlgen::gen_proj(&mut rng, &bdlgen::GenOpts { rotated_spaces: i % 3 == 2, polygon_outlines: i % 2 == 1 });
        let desc = serde_json::to_value(&p).ok();
        texts.push((format!("gen{i}"), bdlgen::print_proj(&p), false, desc));
    }
    for (ti, (label, text, is_real, desc)) in texts.iter().enumerate() {
        let c = if *is_real { Some(&cat) } else { None };
        // indicators of the big legacy files only in the thorough tier
        let with_ind = !*is_real || thorough || text.len() < 400_000;
        let base = observe(text, c, with_ind);
        let g0 = base["source"]["global_deviation"].as_f64().unwrap_or(0.0) as f32;
        // the whole building turned by delta
        let do_turn = !*is_real || thorough || ti % 3 == (args.seed as usize) % 3;
        let mut turned = Value::Null;
        let mut delta = 0.0f32;
        if do_turn && base["outcome"] == "ok" {
            delta = *rng.pick(&[90.0f32, 180.0, 37.0, 123.25, 271.5, 359.0]);
            if let Some(t2) = set_deviation(text, g0 + delta) {
                turned = observe(&t2, c, with_ind);
            }
        }
        cw.write(json!({"op": "placement", "kind": if *is_real { "real" } else { "generated" }, "label": label, "description": desc, "impl": base, "delta": f(delta), "turned": turned}));
    }
    cw.finish();
    0
}
