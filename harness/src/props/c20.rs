//! C20: calendar, sun position, incidence angle, axes conventions, radiation identities, tables.
use crate::corpus::{guarded, Outcome};
use crate::props::CaseWriter;
use crate::rng::Rng;
use crate::Args;
use bemodel::climatedata::{CLIMATEMETADATA, JULYRADDATA, MONTHLYRADDATA};
use bemodel::energy::ray_dir_to_sun;
use bemodel::{point, Orientation, WallGeom};
use climate::solar::{altitude_sol_from_data, angle_sol_surf, declination_from_nday, hourangle_from_tsol};
use climate::{nday_from_md, radiation_for_surface, sun_position, Location, SolarRadiation};
use serde_json::{json, Value};

const DIM: [u32; 12] = [31, 28, 31, 30, 31, 30, 31, 31, 30, 31, 30, 31];

fn calendar(cw: &mut CaseWriter) {
    let mut bad = vec![];
    let mut n = 0;
    let mut ord = 0u32;
    for m in 1..=12u32 {
        for d in 1..=DIM[m as usize - 1] {
            ord += 1;
            n += 1;
            match guarded(|| Ok(nday_from_md(m, d))) {
                Outcome::Ok(v) if v == ord => {}
                Outcome::Ok(v) => bad.push(json!({"month": m, "day": d, "got": v, "want": ord})),
                Outcome::Panic(p) => bad.push(json!({"month": m, "day": d, "panic": p, "want": ord})),
                Outcome::Err(e) => bad.push(json!({"month": m, "day": d, "err": e})),
            }
        }
    }
    cw.write(json!({"op": "noop", "label": "calendar", "kind": "calendar", "impl": {"n": n, "bad": bad}}));
}

fn rad(x: f64) -> f64 {
    x.to_radians()
}

struct SunRef {
    alt: f64,
    az: f64,
    east: f64,
    south: f64,
    up: f64,
}

fn sun_ref(decl: f64, ha: f64, lat: f64) -> SunRef {
    let (sd, cd) = rad(decl).sin_cos();
    let (sh, ch) = rad(ha).sin_cos();
    let (sw, cw) = rad(lat).sin_cos();
    let east = cd * sh;
    let south = cd * sw * ch - sd * cw;
    let up = sd * sw + cd * cw * ch;
    SunRef { alt: up.asin().to_degrees(), az: east.atan2(south).to_degrees(), east, south, up }
}

fn angdiff(a: f64, b: f64) -> f64 {
    let d = (a - b).rem_euclid(360.0);
    d.min(360.0 - d)
}

fn sun_grid(cw: &mut CaseWriter, step: f64, rng: &mut Rng, samples_for_model: usize) {
    let mut n = 0u64;
    let mut worst_alt = (0.0f64, Value::Null);
    let mut worst_az = (0.0f64, Value::Null);
    let mut worst_inc = (0.0f64, Value::Null);
    let mut n_az_bad = 0u64;
    let mut lat = -66.0;
    while lat <= 66.0 {
        let mut decl = -23.45;
        while decl <= 23.45 {
            // the grid, and the hour angles an implementation may single out: solar noon (exactly 0), six hours either side
            let mut has: Vec<f64> = vec![0.0, 90.0, -90.0, 45.0, -45.0];
            let mut hg = -179.5;
            while hg < 180.0 {
                has.push(hg);
                hg += step;
            }
            for ha in has {
                let r = sun_ref(decl, ha, lat);
                if r.alt > 1.0 && r.alt < 88.0 {
                    n += 1;
                    let p = sun_position(decl as f32, ha as f32, Location { latitude: lat as f32, longitude: 0.0, tz: 0 });
                    let da = (p.altitude as f64 - r.alt).abs();
                    if da > worst_alt.0 {
                        worst_alt = (da, json!({"lat": lat, "decl": decl, "ha": ha, "impl": p.altitude, "ref": r.alt}));
                    }
                    // the azimuth is an arcsine of cos(decl) sin(ha) / cos(alt) computed in f32: an error d in that quotient
                    // (a few ulps, amplified by 1 / cos(alt) near the zenith) moves the angle by d / |cos(az)|, and by up to
                    // sqrt(2 d) where the azimuth is +-90 degrees (the arcsine's vertical tangent); allow for that
                    let d_q = 3.0e-6 / rad(r.alt).cos().max(1e-3);
                    let cond = (d_q / rad(r.az).cos().abs().max(1e-12)).min((2.0 * d_q).sqrt()).to_degrees();
                    let raw = angdiff(p.azimuth as f64, r.az);
                    let dz = if raw.is_finite() { (raw - cond).max(0.0) } else { f64::NAN };
                    if dz > 0.1 || !dz.is_finite() {
                        n_az_bad += 1;
                    }
                    if dz > worst_az.0 || !dz.is_finite() {
                        worst_az = (if dz.is_finite() { dz } else { 999.0 }, json!({"lat": lat, "decl": decl, "ha": ha, "impl": p.azimuth, "ref": r.az, "alt": r.alt}));
                    }
                    // incidence on a surface chosen from the grid indices
                    let tilt = ((n * 37) % 181) as f64;
                    let saz = ((n * 53) % 360) as f64 - 180.0;
                    let (sb, cb) = rad(tilt).sin_cos();
                    let (sg, cg) = rad(saz).sin_cos();
                    let dot = sb * sg * r.east + sb * cg * r.south + cb * r.up;
                    let want = dot.clamp(-1.0, 1.0).acos().to_degrees();
                    let got = angle_sol_surf(decl as f32, ha as f32, lat as f32, tilt as f32, saz as f32) as f64;
                    let di = (got - want).abs();
                    if di > worst_inc.0 && want > 2.0 && want < 178.0 {
                        worst_inc = (di, json!({"lat": lat, "decl": decl, "ha": ha, "tilt": tilt, "az": saz, "impl": got, "ref": want}));
                    }
                }
            }
            decl += step.min(23.45 / 4.0);
        }
        lat += step;
    }
    // the sun due east / west (azimuth exactly +-90 degrees: the arcsine's argument is +-1, where a rounding above 1 must not
    // turn into NaN): for each latitude and declination the hour angle with cos(ha) = tan(decl) / tan(lat), and points next to it
    {
        let mut lat = -66.0f64;
        while lat <= 66.0 {
            let mut decl = -23.45f64;
            while decl <= 23.45 {
                let q = rad(decl).tan() / rad(lat).tan();
                if lat.abs() > 0.5 && q.abs() < 0.999 {
                    let ha0 = q.acos().to_degrees();
                    for sgn in [-1.0f64, 1.0] {
                        for off in [0.0f64, 1e-4, -1e-4, 1e-3, -1e-3, 1e-2, -1e-2, 0.05, -0.05] {
                            let ha = sgn * ha0 + off;
                            let r = sun_ref(decl, ha, lat);
                            if r.alt > 1.0 && r.alt < 88.0 {
                                n += 1;
                                let p = sun_position(decl as f32, ha as f32, Location { latitude: lat as f32, longitude: 0.0, tz: 0 });
                                let d_q = 3.0e-6 / rad(r.alt).cos().max(1e-3);
                                let cond = (d_q / rad(r.az).cos().abs().max(1e-12)).min((2.0 * d_q).sqrt()).to_degrees();
                                let raw = angdiff(p.azimuth as f64, r.az);
                                let dz = if raw.is_finite() { (raw - cond).max(0.0) } else { f64::NAN };
                                if dz > 0.1 || !dz.is_finite() {
                                    n_az_bad += 1;
                                }
                                if dz > worst_az.0 || !dz.is_finite() {
                                    worst_az = (if dz.is_finite() { dz } else { 999.0 }, json!({"lat": lat, "decl": decl, "ha": ha, "impl": p.azimuth, "ref": r.az, "alt": r.alt}));
                                }
                            }
                        }
                    }
                }
                decl += 0.35;
            }
            lat += 0.5;
        }
    }
    cw.write(json!({"op": "noop", "label": "sun-grid", "kind": "sun-grid",
        "impl": {"n": n, "step": step, "worst_altitude": {"err": worst_alt.0, "at": worst_alt.1},
                 "worst_azimuth": {"err": worst_az.0, "at": worst_az.1, "n_over_0.1deg": n_az_bad},
                 "worst_incidence": {"err": worst_inc.0, "at": worst_inc.1}}}));
    // a stratified sample for the algebraic model: the trigonometric values are computed here (f64)
    let mut pts = vec![];
    for _ in 0..samples_for_model {
        let lat = rng.f(-66.0, 66.0, 2) as f64;
        let decl = rng.f(-23.45, 23.45, 2) as f64;
        let ha = rng.f(-179.0, 179.0, 2) as f64;
        let tilt = rng.f(0.0, 180.0, 1) as f64;
        let saz = rng.f(-180.0, 180.0, 1) as f64;
        let r = sun_ref(decl, ha, lat);
        if r.alt < 1.0 {
            continue;
        }
        let t = |x: f64| {
            let (s, c) = rad(x).sin_cos();
            json!([c, s])
        };
        let inc = angle_sol_surf(decl as f32, ha as f32, lat as f32, tilt as f32, saz as f32);
        let alt = altitude_sol_from_data(decl as f32, ha as f32, lat as f32);
        let dir = ray_dir_to_sun(r.az as f32, r.alt as f32);
        let g = WallGeom { tilt: tilt as f32, azimuth: saz as f32, position: Some(point![0.0, 0.0, 0.0]), polygon: vec![] };
        let nrm = g.to_global_coords_matrix().unwrap().rotation * bemodel::vector![0.0, 0.0, 1.0];
        pts.push(json!({"d": t(decl), "h": t(ha), "w": t(lat), "b": t(tilt), "g": t(saz), "az": t(r.az), "alt": t(r.alt),
            "impl": {"cos_incidence": (inc as f64).to_radians().cos(), "sin_altitude": (alt as f64).to_radians().sin(),
                     "ray_dir": [dir.x, dir.y, dir.z], "normal": [nrm.x, nrm.y, nrm.z]}}));
    }
    cw.write(json!({"op": "solar", "label": "solar-sample", "points": pts, "impl": {}}));
}

fn radiation_identities(cw: &mut CaseWriter) {
    let path = format!("{}/climate/src/zonaD3.met", crate::corpus::REPO);
    let met = match climate::met::parse_from_path(&path) {
        Ok(m) => m,
        Err(e) => {
            cw.write(json!({"op": "noop", "label": "radiation", "kind": "radiation", "impl": {"error": format!("{e}")}}));
            return;
        }
    };
    let lat = met.meta.latitude;
    let (mut n_h, mut n_d, mut n_b) = (0u64, 0u64, 0u64);
    let mut worst_h = (0.0f32, Value::Null);
    let mut worst_d = (0.0f32, Value::Null);
    let mut neg_beam = vec![];
    for d in &met.data {
        if d.rdirhor + d.rdifhor <= 0.0 {
            continue;
        }
        let nday = climate::nday_from_ymd(2001, d.month, d.day);
        let alt = altitude_sol_from_data(declination_from_nday(nday), hourangle_from_tsol(d.hour), lat);
        let g = SolarRadiation { dir: d.rdirhor, dif: d.rdifhor };
        if alt >= 6.0 {
            n_h += 1;
            let r = radiation_for_surface(nday, d.hour, g, lat, 0.0, 0.0, 0.2);
            let e = (r.dir + r.dif - (g.dir + g.dif)).abs();
            if e > worst_h.0 || !e.is_finite() {
                worst_h = (e, json!({"month": d.month, "day": d.day, "hour": d.hour, "alt": alt, "in": [g.dir, g.dif], "out": [r.dir, r.dif]}));
            }
        }
        if alt >= 1.0 {
            n_d += 1;
            let r = radiation_for_surface(nday, d.hour, g, lat, 180.0, 0.0, 0.2);
            let e = (r.dir + r.dif - 0.2 * (g.dir + g.dif)).abs();
            if e > worst_d.0 || !e.is_finite() {
                worst_d = (e, json!({"month": d.month, "day": d.day, "hour": d.hour, "alt": alt, "in": [g.dir, g.dif], "out": [r.dir, r.dif]}));
            }
        }
        for (tilt, az, _) in climate::ORIENTATIONS {
            n_b += 1;
            let r = radiation_for_surface(nday, d.hour, g, lat, tilt, az, 0.2);
            if !(r.dir >= 0.0) && neg_beam.len() < 3 {
                neg_beam.push(json!({"month": d.month, "day": d.day, "hour": d.hour, "tilt": tilt, "az": az, "beam": r.dir}));
            }
        }
    }
    // the same identity with the sun just above the horizon and some direct radiation (the file has none below 2 degrees): the sun
    // positions of the file's hours, with synthetic inputs
    let (mut n_low, mut worst_low) = (0u64, (0.0f32, Value::Null));
    for d in &met.data {
        let nday = climate::nday_from_ymd(2001, d.month, d.day);
        let alt = altitude_sol_from_data(declination_from_nday(nday), hourangle_from_tsol(d.hour), lat);
        if !(0.05..6.0).contains(&alt) {
            continue;
        }
        for g in [SolarRadiation { dir: 10.0, dif: 20.0 }, SolarRadiation { dir: 300.0, dif: 100.0 }] {
            n_low += 1;
            let r = radiation_for_surface(nday, d.hour, g, lat, 180.0, 0.0, 0.2);
            let e = (r.dir + r.dif - 0.2 * (g.dir + g.dif)).abs();
            if e > worst_low.0 || !e.is_finite() {
                worst_low = (e, json!({"month": d.month, "day": d.day, "hour": d.hour, "alt": alt, "in": [g.dir, g.dif], "out": [r.dir, r.dif]}));
            }
        }
    }
    cw.write(json!({"op": "noop", "label": "radiation", "kind": "radiation",
        "impl": {"hours_low_sun_downward": n_low, "worst_low_sun_downward": {"err": worst_low.0, "at": worst_low.1}, "hours_horizontal": n_h, "worst_horizontal": {"err": worst_h.0, "at": worst_h.1},
                 "hours_downward": n_d, "worst_downward": {"err": worst_d.0, "at": worst_d.1},
                 "beam_evaluations": n_b, "negative_beam": neg_beam}}));
    // tables of the zone whose weather file is shipped, recomputed from that file
    let zone = bemodel::climatedata::ClimateZone::try_from(met.meta.zc.as_str()).ok();
    let mut table_rows = vec![];
    if let Some(z) = zone {
        let rows: Vec<_> = MONTHLYRADDATA.lock().unwrap().iter().filter(|e| e.zone == z).cloned().collect();
        for row in rows {
            // the azimuth the model assigns to this orientation class (52016 convention: E = +90)
            let (tilt, az_model) = match row.orientation {
                Orientation::HZ => (0.0f32, 0.0f32),
                Orientation::S => (90.0, 0.0),
                Orientation::SE => (90.0, 45.0),
                Orientation::E => (90.0, 90.0),
                Orientation::NE => (90.0, 135.0),
                Orientation::N => (90.0, 180.0),
                Orientation::NW => (90.0, -135.0),
                Orientation::W => (90.0, -90.0),
                Orientation::SW => (90.0, -45.0),
            };
            let monthly = |az: f32| -> (Vec<f32>, Vec<f32>) {
                let mut dir = vec![0.0f32; 12];
                let mut dif = vec![0.0f32; 12];
                // the library's own file-level function (the one the tables were generated with)
                for r in climate::met::period_radiation_for_surface(&met.data, lat, tilt, az, 0.2) {
                    dir[r.month as usize - 1] += r.dir / 1000.0;
                    dif[r.month as usize - 1] += r.dif / 1000.0;
                }
                (dir, dif)
            };
            let (dir_m, dif_m) = monthly(az_model);
            let (dir_g, dif_g) = monthly(row.gamma); // under the table's own azimuth label
            let err = |a: &Vec<f32>, b: &Vec<f32>| a.iter().zip(b).map(|(x, y)| (x - y).abs()).fold(0.0f32, f32::max);
            table_rows.push(json!({"orientation": serde_json::to_value(row.orientation).unwrap(), "table_gamma": row.gamma, "model_azimuth": az_model,
                "max_err_at_model_azimuth": err(&dir_m, &row.dir).max(err(&dif_m, &row.dif)),
                "max_err_at_table_gamma": err(&dir_g, &row.dir).max(err(&dif_g, &row.dif)),
                "july_table": row.dir[6] + row.dif[6], "july_model": dir_m[6] + dif_m[6]}));
        }
        // July design day: rows of the date the table carries, from the weather file
        let july = JULYRADDATA.lock().unwrap().get(&z).cloned().unwrap_or_default();
        let mut july_bad = vec![];
        for r in &july {
            let h = met.data.iter().find(|d| d.month == r.month && d.day == r.day && (d.hour - r.hour).abs() < 0.01);
            match h {
                Some(d) => {
                    if (d.rdirhor - r.dir).abs() > 0.51 || (d.rdifhor - r.dif).abs() > 0.51 || ((90.0 - d.zenith) - r.altitude).abs() > 0.06 || (d.azimuth - r.azimuth).abs() > 0.06 {
                        july_bad.push(json!({"hour": r.hour, "table": [r.dir, r.dif, r.altitude, r.azimuth], "file": [d.rdirhor, d.rdifhor, 90.0 - d.zenith, d.azimuth]}));
                    }
                }
                None => july_bad.push(json!({"hour": r.hour, "missing_in_file": true})),
            }
        }
        let meta_ok = CLIMATEMETADATA.lock().unwrap().get(&z).map(|m| (m.latitude - met.meta.latitude).abs() < 1e-3 && (m.longitude - met.meta.longitude).abs() < 1e-3);
        cw.write(json!({"op": "noop", "label": "tables", "kind": "tables", "zone": met.meta.zc,
            "impl": {"monthly": table_rows, "july_rows": july.len(), "july_bad": july_bad, "meta_matches_file": meta_ok}}));
    }
}

pub fn run(args: &Args) -> i32 {
    let mut cw = CaseWriter::new(&args.out, "cases.jsonl");
    let mut rng = Rng::new(args.seed);
    calendar(&mut cw);
    sun_grid(&mut cw, if args.tier == "thorough" { 0.5 } else { 4.0 }, &mut rng, args.n);
    radiation_identities(&mut cw);
    tables_after_use(&mut cw);
    cw.finish();
    0
}

/// the embedded tables exist for every zone *after* the code has used them: indicators of models without windows, with windows
/// without position, and of a shipped model are computed in several zones, then every zone must still have its 14 July-day hours
/// and its 9 monthly rows
fn tables_after_use(cw: &mut CaseWriter) {
    use bemodel::climatedata::{ClimateZone, MONTHLYRADDATA};
    let zones: Vec<ClimateZone> = CLIMATEMETADATA.lock().unwrap().keys().copied().collect();
    let shipped = crate::corpus::real_models(false).into_iter().next().map(|(_, m)| m);
    let mut computed = 0;
    for z in &zones {
        let mut empty = bemodel::Model::default();
        empty.meta.climate = *z;
        if std::panic::catch_unwind(std::panic::AssertUnwindSafe(|| empty.energy_indicators())).is_ok() {
            computed += 1;
        }
        if let Some(m) = &shipped {
            let mut m2 = m.clone();
            m2.meta.climate = *z;
            let _ = std::panic::catch_unwind(std::panic::AssertUnwindSafe(|| m2.energy_indicators()));
        }
    }
    let july = JULYRADDATA.lock().map(|t| zones.iter().filter(|z| t.get(z).map_or(0, |r| r.len()) != 14).map(|z| format!("{z:?}")).collect::<Vec<_>>()).unwrap_or_else(|_| vec!["poisoned".into()]);
    let monthly = MONTHLYRADDATA.lock().map(|t| zones.iter().filter(|z| t.iter().filter(|e| &e.zone == *z).count() != 9).map(|z| format!("{z:?}")).collect::<Vec<_>>()).unwrap_or_else(|_| vec!["poisoned".into()]);
    cw.write(json!({"op": "noop", "label": "tables-after-use", "kind": "tables-after-use",
        "impl": {"zones": zones.len(), "computations": computed, "zones_without_14_july_hours": july, "zones_without_9_monthly_rows": monthly}}));
}
