//! C16: `bemodel::purge_unused`.
use crate::corpus::{guarded, real_models, Outcome};
use crate::genmodel::{gen_model, GenOpts};
use crate::props::c15::warnings_value;
use crate::props::{model_value, CaseWriter};
use crate::rng::Rng;
use crate::Args;
use bemodel::Model;
use serde_json::{json, Value};

fn ids(m: &Model) -> Value {
    macro_rules! ids {
        ($e:expr) => {
            $e.iter().map(|x| x.id.to_string()).collect::<Vec<_>>()
        };
    }
    json!({
        "spaces": ids!(m.spaces), "walls": ids!(m.walls), "windows": ids!(m.windows),
        "shades": ids!(m.shades), "thermal_bridges": ids!(m.thermal_bridges),
        "wallcons": ids!(m.cons.wallcons), "wincons": ids!(m.cons.wincons),
        "materials": ids!(m.cons.materials), "glasses": ids!(m.cons.glasses),
        "frames": ids!(m.cons.frames), "loads": ids!(m.loads), "thermostats": ids!(m.thermostats),
        "year": ids!(m.schedules.year), "week": ids!(m.schedules.week), "day": ids!(m.schedules.day),
    })
}

fn indicators(m: &Model) -> Value {
    match guarded(|| {
        let ind = m.energy_indicators();
        Ok(json!({
            "area_ref": ind.area_ref, "compactness": ind.compactness,
            "vol_env_net": ind.vol_env_net, "vol_env_gross": ind.vol_env_gross,
            "K": ind.K_data.K, "n50": ind.n50_data.n50, "n50_ref": ind.n50_data.n50_ref,
            "q_soljul": ind.q_soljul_data.q_soljul,
        }))
    }) {
        Outcome::Ok(v) => v,
        Outcome::Err(e) => json!({ "err": e }),
        Outcome::Panic(p) => json!({ "panic": p }),
    }
}

fn one_case(cw: &mut CaseWriter, label: &str, m: &Model) {
    let mut p = m.clone();
    bemodel::purge_unused(&mut p);
    let once = p.as_json().unwrap_or_default();
    let mut p2 = p.clone();
    bemodel::purge_unused(&mut p2);
    let twice = p2.as_json().unwrap_or_default();
    // everything that is kept is kept unchanged: the purged model with the removed items put
    // back must be the original; checked here as "every kept item serialises identically"
    let kept_identical = {
        let a = serde_json::to_value(m).unwrap();
        let b = serde_json::to_value(&p).unwrap();
        kept_items_identical(&a, &b)
    };
    cw.write(json!({
        "op": "purge",
        "label": label,
        "model": model_value(m),
        "impl": {
            "ids": ids(&p),
            "idempotent": once == twice,
            "kept_identical": kept_identical,
            "warnings_before": warnings_value(&bemodel::check(m)),
            "warnings_after": warnings_value(&bemodel::check(&p)),
            "ind_before": indicators(m),
            "ind_after": indicators(&p),
        }
    }));
}

/// every object with an "id" present after purging equals the object with that id, in the same collection, before
/// (ids are unique within a collection only: the key is the path of the collection plus the id)
fn kept_items_identical(before: &Value, after: &Value) -> bool {
    fn collect<'a>(v: &'a Value, path: &str, out: &mut std::collections::HashMap<String, &'a Value>) {
        match v {
            Value::Object(o) => {
                if let Some(Value::String(id)) = o.get("id") {
                    out.insert(format!("{path}#{id}"), v);
                }
                for (k, x) in o {
                    collect(x, &format!("{path}/{k}"), out);
                }
            }
            Value::Array(a) => {
                for x in a {
                    collect(x, path, out);
                }
            }
            _ => {}
        }
    }
    let mut b = std::collections::HashMap::new();
    collect(before, "", &mut b);
    let mut a = std::collections::HashMap::new();
    collect(after, "", &mut a);
    a.iter().all(|(k, v)| b.get(k).map_or(false, |w| w == v))
        && before.get("meta") == after.get("meta")
        && before.get("overrides") == after.get("overrides")
}

pub fn run(args: &Args) -> i32 {
    let mut cw = CaseWriter::new(&args.out, "cases.jsonl");
    for (label, m) in real_models(args.tier == "thorough") {
        one_case(&mut cw, &label, &m);
    }
    let mut rng = Rng::new(args.seed);
    for i in 0..args.n {
        let mut r = rng.fork(i as u64);
        let o = GenOpts {
            broken: i % 5 == 1,
            unused: i % 6 != 0,
            odd: i % 2 == 0,
            schedules: i % 3 != 2,
            ..Default::default()
        };
        let m = gen_model(&mut r, &o);
        one_case(&mut cw, &format!("gen:{}:{}", args.seed, i), &m);
    }
    cw.finish();
    0
}
