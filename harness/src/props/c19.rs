//! C19: single-edit corruptions of every line of every shipped project file: still converted, or rejected with
//! an error — never a crash or a hang.  Fault enumeration on the implementation, in watched worker processes.
use crate::props::CaseWriter;
use crate::Args;
use bemodel::Model;
use serde_json::{json, Value};
use std::collections::BTreeMap;
use std::io::{BufRead, Write};
use std::path::PathBuf;
use std::process::{Command, Stdio};
use std::sync::mpsc;
use std::time::Duration;

const KINDS: [&str; 14] = ["delete", "duplicate", "swap-next", "remove-block", "num-to-text", "num-to-huge", "num-to-big", "num-to-negative", "num-to-zero", "num-to-99", "rename-ref", "truncate-here",
    "truncate-after-quote", "truncate-mid-line"];

#[derive(Clone)]
struct FileSpec {
    path: PathBuf,
    kind: &'static str, // ctehexml | cte | kyg | tbl
}

fn files() -> Vec<FileSpec> {
    let mut v = vec![];
    for d in crate::corpus::project_dirs() {
        if let Ok(rd) = std::fs::read_dir(&d) {
            let mut fs: Vec<_> = rd.flatten().map(|e| e.path()).collect();
            fs.sort();
            for p in fs {
                let n = p.file_name().unwrap().to_string_lossy().to_lowercase();
                if n.ends_with(".ctehexml") {
                    v.push(FileSpec { path: p, kind: "ctehexml" });
                } else if n == "kygananciassolares.txt" {
                    v.push(FileSpec { path: p, kind: "kyg" });
                } else if n == "newbdl_o.tbl" {
                    v.push(FileSpec { path: p, kind: "tbl" });
                }
            }
        }
    }
    for p in crate::corpus::lider_files() {
        v.push(FileSpec { path: p, kind: "cte" });
    }
    v
}

/// the shipped files plus the generated ones found in `gen` (sorted)
fn files_with(gen: Option<&std::path::Path>) -> Vec<FileSpec> {
    let mut v = files();
    if let Some(g) = gen {
        if let Ok(rd) = std::fs::read_dir(g) {
            let mut ps: Vec<_> = rd.flatten().map(|e| e.path()).filter(|p| p.extension().map_or(false, |e| e == "cte")).collect();
            ps.sort();
            for p in ps {
                v.push(FileSpec { path: p, kind: "gen" });
            }
        }
    }
    v
}

/// generated projects, written next to the run's output so that the workers can read them as files
fn generated_files(dir: &std::path::Path, seed: u64, n: usize) -> Vec<FileSpec> {
    let mut rng = crate::rng::Rng::new(seed ^ 0x19C);
    let mut v = vec![];
    std::fs::create_dir_all(dir).ok();
    for i in 0..n {
        let p = crate::bdlgen::gen_proj(&mut rng, &crate::bdlgen::GenOpts { rotated_spaces: i % 3 == 2, polygon_outlines: i % 2 == 1 });
        let path = dir.join(format!("generated{i}.cte"));
        if std::fs::write(&path, crate::bdlgen::print_proj(&p)).is_ok() {
            v.push(FileSpec { path, kind: "gen" });
        }
    }
    v
}

fn decode(bytes: &[u8]) -> String {
    match std::str::from_utf8(bytes) {
        Ok(s) => s.to_string(),
        Err(_) => bytes.iter().map(|b| *b as char).collect(),
    }
}

fn find_number(line: &str) -> Option<(usize, usize)> {
    // first numeric literal that follows '=' , '(' , ',' or whitespace
    let b = line.as_bytes();
    let mut i = 0;
    while i < b.len() {
        let c = b[i];
        let start_ok = i == 0 || matches!(b[i - 1], b'=' | b'(' | b',' | b' ' | b'\t' | b';' | b'>');
        if start_ok && (c.is_ascii_digit() || ((c == b'-' || c == b'.') && i + 1 < b.len() && b[i + 1].is_ascii_digit())) {
            let mut j = i + 1;
            while j < b.len() && (b[j].is_ascii_digit() || b[j] == b'.' || b[j] == b'e' || b[j] == b'E' || ((b[j] == b'-' || b[j] == b'+') && (b[j - 1] == b'e' || b[j - 1] == b'E'))) {
                j += 1;
            }
            let end_ok = j == b.len() || matches!(b[j], b',' | b')' | b' ' | b'\t' | b'\r' | b';' | b'<');
            if end_ok {
                return Some((i, j));
            }
            i = j;
        } else {
            i += 1;
        }
    }
    None
}

fn join_lines<'a>(it: impl Iterator<Item = &'a str>, cap: usize) -> String {
    let mut s = String::with_capacity(cap + 64);
    let mut first = true;
    for l in it {
        if !first {
            s.push('\n');
        }
        first = false;
        s.push_str(l);
    }
    s
}

/// the damaged text for (line index, edit kind); `None` when the edit does not apply to that line
pub fn damage(lines: &[&str], li: usize, kind: &str, cap: usize) -> Option<String> {
    let with_line = |new: &str| -> String { join_lines(lines[..li].iter().copied().chain(std::iter::once(new)).chain(lines[li + 1..].iter().copied()), cap) };
    match kind {
        "delete" => Some(join_lines(lines[..li].iter().chain(lines[li + 1..].iter()).copied(), cap)),
        "duplicate" => Some(join_lines(lines[..=li].iter().chain(lines[li..].iter()).copied(), cap)),
        "swap-next" => {
            if li + 1 >= lines.len() {
                return None;
            }
            Some(join_lines(lines[..li].iter().copied().chain([lines[li + 1], lines[li]]).chain(lines[li + 2..].iter().copied()), cap))
        }
        "remove-block" => {
            // a BDL block opens with `"name" = TYPE` and closes with a line `..`; an XML element that opens and
            // closes on different lines is removed up to its closing tag
            let l = lines[li].trim();
            let end = if l.starts_with('"') && l.contains(" = ") {
                (li..lines.len().min(li + 400)).find(|&j| lines[j].trim() == "..")?
            } else if l.starts_with('<') && !l.starts_with("</") && !l.starts_with("<?") && !l.contains("</") && !l.ends_with("/>") {
                let tag: String = l[1..].chars().take_while(|c| c.is_alphanumeric() || *c == '_').collect();
                if tag.is_empty() {
                    return None;
                }
                let close = format!("</{}>", tag);
                (li + 1..lines.len().min(li + 4000)).find(|&j| lines[j].contains(&close))?
            } else {
                return None;
            };
            Some(join_lines(lines[..li].iter().chain(lines[end + 1..].iter()).copied(), cap))
        }
        "num-to-text" | "num-to-huge" | "num-to-big" | "num-to-negative" | "num-to-zero" | "num-to-99" => {
            let (a, b) = find_number(lines[li])?;
            let rep = match kind {
                "num-to-text" => "abc",
                "num-to-huge" => "1e39",
                "num-to-big" => "123456789012",
                "num-to-zero" => "0",
                "num-to-99" => "99",
                _ => "-7",
            };
            Some(with_line(&format!("{}{}{}", &lines[li][..a], rep, &lines[li][b..])))
        }
        "rename-ref" => {
            let l = lines[li];
            let a = l.find('"')?;
            let b = a + 1 + l[a + 1..].find('"')?;
            if b <= a + 1 {
                return None;
            }
            Some(with_line(&format!("{}\"{}_X\"{}", &l[..a], &l[a + 1..b], &l[b + 1..])))
        }
        "truncate-here" => Some(join_lines(lines[..li].iter().copied(), cap)),
        // the file ends inside this line: right after the quote that opens a value (or a name), or half way through the line
        "truncate-after-quote" => {
            let l = lines[li];
            let at = match l.find('=') {
                Some(e) => l[e..].find('"').map(|q| e + q + 1),
                None => l.find('"').map(|q| q + 1),
            }?;
            Some(join_lines(lines[..li].iter().copied().chain(std::iter::once(&l[..at])), cap))
        }
        "truncate-mid-line" => {
            let l = lines[li];
            if l.len() < 2 {
                return None;
            }
            let mut at = l.len() / 2;
            while !l.is_char_boundary(at) {
                at += 1;
            }
            Some(join_lines(lines[..li].iter().copied().chain(std::iter::once(&l[..at])), cap))
        }
        _ => None,
    }
}

struct Ctx {
    catalog: hulc::bdl::DB,
    tmp: PathBuf,
    /// the file being damaged (for a result file: its project directory holds the project it belongs to)
    src: PathBuf,
}

/// a damaged HULC result file is used the way the tools use it: in a copy of its project directory, through
/// `hulc2model::collect_hulc_data(dir, true, true)` (parser + `fix_ecdata_from_extra`)
fn process_result_file(ctx: &Ctx, text: &str) -> Result<bool, anyhow::Error> {
    let dir = ctx.tmp.join(format!("proj{}", std::process::id()));
    let srcdir = ctx.src.parent().map(|p| p.to_path_buf()).unwrap_or_default();
    let name = ctx.src.file_name().map(|n| n.to_os_string()).unwrap_or_default();
    if !dir.join(".ready").exists() || std::fs::read_to_string(dir.join(".ready")).ok().as_deref() != Some(&*srcdir.to_string_lossy()) {
        std::fs::remove_dir_all(&dir).ok();
        std::fs::create_dir_all(&dir)?;
        for e in std::fs::read_dir(&srcdir)?.flatten() {
            let n = e.file_name().to_string_lossy().to_lowercase();
            if n.ends_with(".ctehexml") || n == "kygananciassolares.txt" || n == "newbdl_o.tbl" {
                std::fs::copy(e.path(), dir.join(e.file_name()))?;
            }
        }
        std::fs::write(dir.join(".ready"), srcdir.to_string_lossy().as_bytes())?;
    }
    let bytes: Vec<u8> = text.chars().map(|c| if (c as u32) < 256 { c as u8 } else { b'?' }).collect();
    std::fs::write(dir.join(&name), bytes)?;
    Ok(hulc2model::collect_hulc_data(dir.to_string_lossy(), true, true).is_ok())
}

/// message class of a panic: the text before the first ':' (what follows names the offending element), digits masked
fn msg_class(msg: &str) -> String {
    let head = msg.split(": ").next().unwrap_or(msg);
    let mut out = String::new();
    let mut last_hash = false;
    for c in head.chars().take(80) {
        if c.is_ascii_digit() {
            if !last_hash {
                out.push('#');
            }
            last_hash = true;
        } else {
            out.push(c);
            last_hash = false;
        }
    }
    out.trim().to_string()
}

fn with_catalog(mut d: hulc::bdl::Data, cat: &hulc::bdl::DB) -> hulc::bdl::Data {
    d.db.materials.extend(cat.materials.clone());
    d.db.wallcons.extend(cat.wallcons.clone());
    d.db.wincons.extend(cat.wincons.clone());
    d.db.glasses.extend(cat.glasses.clone());
    d.db.frames.extend(cat.frames.clone());
    d
}

/// parse + convert one (damaged) text: Ok(true) converted, Ok(false) rejected with an error
fn process(ctx: &Ctx, kind: &str, text: &str) -> Result<bool, anyhow::Error> {
    match kind {
        "ctehexml" => {
            let mut data = match hulc::ctehexml::parse(text) {
                Ok(d) => d,
                Err(_) => return Ok(false),
            };
            data.bdldata = with_catalog(data.bdldata, &ctx.catalog);
            Ok(Model::try_from(&data).is_ok())
        }
        "gen" => {
            // a generated project defines all it uses: no catalogue
            let bdl = match hulc::bdl::Data::new(text) {
                Ok(d) => d,
                Err(_) => return Ok(false),
            };
            let data = hulc::ctehexml::CtehexmlData { bdldata: bdl, ..Default::default() };
            Ok(Model::try_from(&data).is_ok())
        }
        "cte" => {
            let bdl = match hulc::bdl::Data::new(text) {
                Ok(d) => d,
                Err(_) => return Ok(false),
            };
            let data = hulc::ctehexml::CtehexmlData { bdldata: with_catalog(bdl, &ctx.catalog), ..Default::default() };
            Ok(Model::try_from(&data).is_ok())
        }
        "kyg" => {
            let parsed = hulc::kyg::parse(text).is_ok();
            Ok(process_result_file(ctx, text)? && parsed)
        }
        "tbl" => {
            let p = ctx.tmp.join(format!("t{}.tbl", std::process::id()));
            let bytes: Vec<u8> = text.chars().map(|c| if (c as u32) < 256 { c as u8 } else { b'?' }).collect();
            std::fs::write(&p, bytes)?;
            let parsed = hulc::tbl::parse(&p).is_ok();
            Ok(process_result_file(ctx, text)? && parsed)
        }
        _ => Ok(false),
    }
}

/// all (file, line, kind) cases in a fixed order; `stride` > 1 keeps every stride-th line (seeded offset)
fn case_count(fs: &[FileSpec]) -> Vec<usize> {
    fs.iter().map(|f| std::fs::read(&f.path).map(|b| decode(&b).lines().count()).unwrap_or(0)).collect()
}

fn worker(args: &Args) -> i32 {
    let fi: usize = args.extra.get("file").and_then(|s| s.parse().ok()).unwrap_or(0);
    let from: usize = args.extra.get("from").and_then(|s| s.parse().ok()).unwrap_or(0);
    let stride: usize = args.extra.get("stride").and_then(|s| s.parse().ok()).unwrap_or(1).max(1);
    let offset: usize = args.extra.get("offset").and_then(|s| s.parse().ok()).unwrap_or(0);
    let gen = args.extra.get("gen").map(PathBuf::from);
    let fs = files_with(gen.as_deref());
    let f = &fs[fi];
    let tmp = PathBuf::from(args.extra.get("tmp").cloned().unwrap_or_else(|| "/verif/.cache/run/c19-tmp".into()));
    std::fs::create_dir_all(&tmp).ok();
    let ctx = Ctx { catalog: hulc::ctehexml::load_lider_catalog().unwrap_or_default(), tmp, src: f.path.clone() };
    let text = decode(&std::fs::read(&f.path).unwrap_or_default());
    let lines: Vec<&str> = text.lines().collect();
    let loc = std::sync::Arc::new(std::sync::Mutex::new(String::new()));
    let loc2 = loc.clone();
    std::panic::set_hook(Box::new(move |info| {
        if let Some(l) = info.location() {
            *loc2.lock().unwrap() = format!("{}:{}", l.file().rsplit("/repo/").next().unwrap_or(l.file()), l.line());
        }
    }));
    let out = std::io::stdout();
    let to: usize = args.extra.get("to").and_then(|s| s.parse().ok()).unwrap_or(usize::MAX);
    let total = (lines.len() * KINDS.len()).min(to);
    // the result files are short: a denser slice of their lines
    let stride = if f.kind == "kyg" || f.kind == "tbl" { (stride / 20).max(1) } else { stride };
    let mut k = from;
    while k < total {
        let (li, ki) = (k / KINDS.len(), k % KINDS.len());
        if li % stride == offset % stride {
            if let Some(t) = damage(&lines, li, KINDS[ki], text.len()) {
                writeln!(out.lock(), "C19 START {k}").ok();
                let r = std::panic::catch_unwind(std::panic::AssertUnwindSafe(|| process(&ctx, f.kind, &t)));
                let o = match r {
                    Ok(Ok(true)) => "ok".to_string(),
                    Ok(Ok(false)) | Ok(Err(_)) => "err".to_string(),
                    Err(p) => {
                        let msg = if let Some(s) = p.downcast_ref::<&str>() { s.to_string() } else if let Some(s) = p.downcast_ref::<String>() { s.clone() } else { "panic".into() };
                        format!("panic\t{}\t{}", loc.lock().unwrap(), msg.replace(['\t', '\n'], " ").chars().take(100).collect::<String>())
                    }
                };
                writeln!(out.lock(), "C19 DONE {k}\t{o}").ok();
            }
        }
        k += 1;
    }
    writeln!(out.lock(), "C19 END").ok();
    0
}

/// replay of one damaged file: `c19 --one <file> --line <1-based line> --edit <kind>`; prints the outcome and the time it took
fn one_case(args: &Args, path: &str) -> i32 {
    let p = PathBuf::from(path);
    let n = p.file_name().map(|n| n.to_string_lossy().to_lowercase()).unwrap_or_default();
    let kind = if n.ends_with(".ctehexml") { "ctehexml" } else if n == "kygananciassolares.txt" { "kyg" } else if n == "newbdl_o.tbl" { "tbl" } else { "cte" };
    let li: usize = args.extra.get("line").and_then(|s| s.parse::<usize>().ok()).unwrap_or(1).saturating_sub(1);
    let edit = args.extra.get("edit").cloned().unwrap_or_else(|| "delete".into());
    let tmp = PathBuf::from(args.extra.get("tmp").cloned().unwrap_or_else(|| "/verif/.cache/run/c19-tmp".into()));
    std::fs::create_dir_all(&tmp).ok();
    let ctx = Ctx { catalog: hulc::ctehexml::load_lider_catalog().unwrap_or_default(), tmp, src: p.clone() };
    let text = decode(&std::fs::read(&p).unwrap_or_default());
    let lines: Vec<&str> = text.lines().collect();
    let Some(t) = damage(&lines, li, &edit, text.len()) else {
        println!("edit does not apply");
        return 2;
    };
    let t0 = std::time::Instant::now();
    let r = std::panic::catch_unwind(std::panic::AssertUnwindSafe(|| process(&ctx, kind, &t)));
    let o = match r {
        Ok(Ok(true)) => "ok",
        Ok(Ok(false)) | Ok(Err(_)) => "err",
        Err(_) => "panic",
    };
    println!("{o} {:.3}s", t0.elapsed().as_secs_f64());
    0
}

/// `Polygon::edge_vertices` against the model: vertex names of every shape the damaged files can contain
fn edge_cases(cw: &mut CaseWriter, seed: u64, n_random: usize) {
    use hulc::bdl::Polygon;
    let mut rng = crate::rng::Rng::new(seed ^ 0xC19);
    let fixed = ["V1", "V2", "V3", "V4", "V5", "V0", "V", "", "BOTTOM", "TOP", "v1", "V-1", "V+1", "V+0", "V01", "V1 ", " V1", "V1.0", "VV1", "V１",
        "V18446744073709551615", "V18446744073709551616", "V99999999999999999999999", "V4294967296", "1", "V+", "V-", "V1e0", "Vé"];
    let mut names: Vec<String> = fixed.iter().map(|s| s.to_string()).collect();
    let alphabet = ['V', '0', '1', '2', '3', '9', '+', '-', ' ', 'B', '.', 'e'];
    for _ in 0..n_random {
        let len = rng.below(5);
        let mut s = String::new();
        if rng.below(4) != 0 {
            s.push('V');
        }
        for _ in 0..len {
            s.push(alphabet[rng.below(alphabet.len())]);
        }
        names.push(s);
    }
    for name in names {
        for n in 0..6usize {
            let pts: Vec<_> = (0..n).map(|k| nalgebra::point![k as f32, (k * k) as f32]).collect();
            let poly = Polygon(pts.clone());
            let r = std::panic::catch_unwind(std::panic::AssertUnwindSafe(|| {
                poly.edge_vertices(&name).map(|[a, b]| {
                    let ia = pts.iter().position(|p| p == a).map_or(-1, |x| x as i64);
                    let ib = pts.iter().position(|p| p == b).map_or(-1, |x| x as i64);
                    (ia, ib)
                })
            }));
            let obs = match r {
                Ok(Some((a, b))) => json!({"some": [a, b]}),
                Ok(None) => json!("none"),
                Err(_) => json!("panic"),
            };
            cw.write(json!({"op": "edgevert", "kind": "edge", "name": name, "n": n, "impl": obs}));
        }
    }
}

/// damaged generated projects with the model's verdict: blocks -> typed elements -> conversion skeleton
fn verdict_cases(cw: &mut CaseWriter, seed: u64, n: usize) {
    let mut rng = crate::rng::Rng::new(seed ^ 0x7E2D);
    let ctx = Ctx { catalog: Default::default(), tmp: PathBuf::from("/nonexistent"), src: PathBuf::new() };
    let mut i = 0;
    while i < n {
        let p = crate::bdlgen::gen_proj(&mut rng, &crate::bdlgen::GenOpts { rotated_spaces: i % 3 == 2, polygon_outlines: i % 2 == 1 });
        let text = crate::bdlgen::print_proj(&p);
        let lines: Vec<&str> = text.lines().collect();
        // (first line, last line, type) of every block
        let mut spans: Vec<(usize, usize, String)> = vec![];
        for (k, l) in lines.iter().enumerate() {
            let t = l.trim();
            if t.starts_with('"') {
                if let Some((_, ty)) = t.rsplit_once('=') {
                    let ty = ty.trim();
                    if !ty.is_empty() && ty.chars().all(|c| c.is_ascii_uppercase() || c == '-') {
                        if let Some(e) = (k..lines.len()).find(|&m| lines[m].trim() == "..") {
                            spans.push((k, e, ty.to_string()));
                        }
                    }
                }
            }
        }
        let mut types: Vec<String> = spans.iter().map(|s| s.2.clone()).collect();
        types.sort();
        types.dedup();
        for j in 0..20 {
            let (t2, label) = if j == 0 {
                (Some(text.clone()), "intact".to_string())
            } else {
                // stratified: a block type first, then a block of that type, then one of its lines — so that the rare kinds
                // (shades, schedules, constructions, conditions) are damaged as often as walls and windows
                let li = if j % 4 == 1 || spans.is_empty() {
                    rng.below(lines.len())
                } else {
                    let ty = rng.pick(&types).clone();
                    let of_type: Vec<&(usize, usize, String)> = spans.iter().filter(|sp| sp.2 == ty).collect();
                    let sp = rng.pick(&of_type);
                    sp.0 + rng.below(sp.1 - sp.0 + 1)
                };
                let kind = *rng.pick(&KINDS);
                (damage(&lines, li, kind, text.len()), format!("{kind}@{li}"))
            };
            if let Some(t2) = t2 {
                let r = std::panic::catch_unwind(std::panic::AssertUnwindSafe(|| process(&ctx, "gen", &t2)));
                let v = match r {
                    Ok(Ok(true)) => "converted",
                    Ok(Ok(false)) | Ok(Err(_)) => "rejected",
                    Err(_) => "crashed",
                };
                cw.write(json!({"op": "verdict", "kind": "verdict", "label": format!("proj{i}:{label}"), "text": t2, "impl": v}));
                i += 1;
            }
        }
        // systematic: every block of the project loses its first attribute line, and its last one; and for each block type one block
        // loses each of its attribute lines in turn
        let mut targets: Vec<(&str, usize, String)> = vec![];
        for sp in &spans {
            targets.push(("first-attribute-deleted", sp.0 + 1, sp.2.clone()));
            targets.push(("last-attribute-deleted", sp.1.saturating_sub(1), sp.2.clone()));
        }
        for ty in &types {
            let of_type: Vec<&(usize, usize, String)> = spans.iter().filter(|sp| &sp.2 == ty).collect();
            let sp = rng.pick(&of_type);
            for li in sp.0 + 2..sp.1.saturating_sub(1) {
                targets.push(("attribute-deleted", li, sp.2.clone()));
            }
            // … and has the first number of each of its attribute lines replaced by one that overflows f32
            for li in sp.0 + 1..sp.1 {
                targets.push(("number-overflows", li, sp.2.clone()));
            }
        }
        for (what, li, ty) in targets {
            let sp = match spans.iter().find(|sp| sp.0 < li && li < sp.1) {
                Some(sp) => sp,
                None => continue,
            };
            {
                if li <= sp.0 || li >= sp.1 {
                    continue;
                }
                let sp = (sp.0, sp.1, ty.clone());
                if let Some(t2) = damage(&lines, li, if what == "number-overflows" { "num-to-huge" } else { "delete" }, text.len()) {
                    let r = std::panic::catch_unwind(std::panic::AssertUnwindSafe(|| process(&ctx, "gen", &t2)));
                    let v = match r {
                        Ok(Ok(true)) => "converted",
                        Ok(Ok(false)) | Ok(Err(_)) => "rejected",
                        Err(_) => "crashed",
                    };
                    cw.write(json!({"op": "verdict", "kind": "verdict", "label": format!("proj{i}:{what}:{}@{li}", sp.2), "text": t2, "impl": v}));
                    i += 1;
                }
            }
        }
    }
}

static HANGS: std::sync::atomic::AtomicUsize = std::sync::atomic::AtomicUsize::new(0);

pub fn run(args: &Args) -> i32 {
    if args.extra.contains_key("worker") {
        return worker(args);
    }
    if let Some(path) = args.extra.get("one") {
        return one_case(args, path);
    }
    let mut cw = CaseWriter::new(&args.out, "cases.jsonl");
    let exe = std::env::current_exe().expect("exe");
    let gen_dir = PathBuf::from(&args.out).join("gen");
    generated_files(&gen_dir, args.seed, if args.tier == "thorough" { 12 } else { 3 });
    let fs = files_with(Some(&gen_dir));
    let counts = case_count(&fs);
    let thorough = args.tier == "thorough";
    // quick: a seeded 1-in-`stride` slice of the lines of every file; thorough: every line
    let stride: usize = args.extra.get("stride").and_then(|s| s.parse().ok()).unwrap_or(if thorough { 8 } else { 160 }).max(1);
    // work items: (file, first case, one past the last case); big files are cut into chunks of lines
    let chunk_lines = (stride * 60).max(1500);
    let mut items: Vec<(usize, usize, usize)> = vec![];
    for (fi, n) in counts.iter().enumerate() {
        let mut a = 0;
        while a < *n {
            let b = (a + chunk_lines).min(*n);
            items.push((fi, a * KINDS.len(), b * KINDS.len()));
            a = b;
        }
    }
    let items = std::sync::Arc::new(items);
    let tmp = PathBuf::from(&args.out).join("tmp");
    std::fs::create_dir_all(&tmp).ok();
    let (tx, rx) = mpsc::channel::<(usize, usize, String)>(); // (file, case, outcome line)
    let next = std::sync::Arc::new(std::sync::Mutex::new(0usize));
    let mut hs = vec![];
    for _ in 0..16 {
        let (tx, next, exe, items, tmp, gen_dir) = (tx.clone(), next.clone(), exe.clone(), items.clone(), tmp.clone(), gen_dir.clone());
        let seed = args.seed;
        hs.push(std::thread::spawn(move || loop {
            let it = {
                let mut n = next.lock().unwrap();
                let v = *n;
                *n += 1;
                v
            };
            if it >= items.len() {
                break;
            }
            let (fi, mut from, to) = items[it];
            loop {
                let mut child = match Command::new(&exe)
                    .args(["c19", "--worker", "1", "--file", &fi.to_string(), "--from", &from.to_string(), "--to", &to.to_string(), "--stride", &stride.to_string(),
                           "--offset", &((seed as usize + fi) % stride.max(1)).to_string(), "--tmp", &tmp.to_string_lossy(), "--gen", &gen_dir.to_string_lossy()])
                    .stdout(Stdio::piped())
                    .stderr(Stdio::null())
                    .spawn()
                {
                    Ok(c) => c,
                    Err(_) => break,
                };
                let stdout = child.stdout.take().unwrap();
                let (ltx, lrx) = mpsc::channel::<String>();
                std::thread::spawn(move || {
                    for line in std::io::BufReader::new(stdout).lines().map_while(Result::ok) {
                        if ltx.send(line).is_err() {
                            break;
                        }
                    }
                });
                let mut current: Option<usize> = None;
                let mut finished = false;
                loop {
                    match lrx.recv_timeout(Duration::from_secs(20)) {
                        Ok(l) => {
                            if let Some(r) = l.strip_prefix("C19 START ") {
                                current = r.trim().parse().ok();
                            } else if let Some(r) = l.strip_prefix("C19 DONE ") {
                                if let Some((k, o)) = r.split_once('\t') {
                                    tx.send((fi, k.parse().unwrap_or(0), o.to_string())).ok();
                                }
                                current = None;
                            } else if l.starts_with("C19 END") {
                                finished = true;
                                break;
                            }
                        }
                        Err(mpsc::RecvTimeoutError::Timeout) => {
                            if let Some(k) = current {
                                // a busy machine can starve a worker for 20 s: the case is a hang only if it also exceeds a minute on its own
                                // (after three confirmed hangs later expiries are reported at once; after 40 the chunk is given up)
                                let _ = child.kill();
                                let seen = HANGS.fetch_add(1, std::sync::atomic::Ordering::SeqCst);
                                if seen >= 3 {
                                    tx.send((fi, k, "timeout".into())).ok();
                                    if seen >= 40 {
                                        finished = true;
                                    } else {
                                        from = k + 1;
                                    }
                                    break;
                                }
                                let alone = Command::new(&exe)
                                    .args(["c19", "--worker", "1", "--file", &fi.to_string(), "--from", &k.to_string(), "--to", &(k + 1).to_string(), "--stride", "1",
                                           "--offset", "0", "--tmp", &tmp.to_string_lossy(), "--gen", &gen_dir.to_string_lossy()])
                                    .stdout(Stdio::piped())
                                    .stderr(Stdio::null())
                                    .spawn();
                                let mut verdict = "timeout".to_string();
                                if let Ok(mut c2) = alone {
                                    let so = c2.stdout.take().unwrap();
                                    let (t2, r2) = mpsc::channel::<String>();
                                    std::thread::spawn(move || {
                                        for line in std::io::BufReader::new(so).lines().map_while(Result::ok) {
                                            if t2.send(line).is_err() {
                                                break;
                                            }
                                        }
                                    });
                                    let deadline = std::time::Instant::now() + Duration::from_secs(60);
                                    while let Ok(l) = r2.recv_timeout(deadline.saturating_duration_since(std::time::Instant::now())) {
                                        if let Some(r) = l.strip_prefix("C19 DONE ") {
                                            if let Some((_, o)) = r.split_once('\t') {
                                                verdict = o.to_string();
                                            }
                                            break;
                                        }
                                        if l.starts_with("C19 END") {
                                            break;
                                        }
                                    }
                                    let _ = c2.kill();
                                    let _ = c2.wait();
                                }
                                if verdict != "timeout" {
                                    HANGS.fetch_sub(1, std::sync::atomic::Ordering::SeqCst);
                                }
                                tx.send((fi, k, verdict)).ok();
                                from = k + 1;
                            } else {
                                finished = true;
                            }
                            break;
                        }
                        Err(mpsc::RecvTimeoutError::Disconnected) => {
                            if let Some(k) = current {
                                tx.send((fi, k, "abort".into())).ok();
                                from = k + 1;
                            } else {
                                finished = true;
                            }
                            break;
                        }
                    }
                }
                let _ = child.kill();
                let _ = child.wait();
                if finished {
                    break;
                }
            }
        }));
    }
    drop(tx);
    let mut totals: BTreeMap<String, u64> = BTreeMap::new();
    let mut per_kind: BTreeMap<String, u64> = BTreeMap::new();
    let mut sites: BTreeMap<String, (u64, Value)> = BTreeMap::new();
    for (fi, k, o) in rx {
        let (li, ki) = (k / KINDS.len(), k % KINDS.len());
        let class = o.split('\t').next().unwrap_or("?").to_string();
        *totals.entry(class.clone()).or_default() += 1;
        *per_kind.entry(format!("{}/{}", KINDS[ki], fs[fi].kind)).or_default() += 1;
        if class != "ok" && class != "err" {
            let key = if class == "panic" {
                let mut it = o.split('\t');
                it.next();
                let site = it.next().unwrap_or("?");
                let msg = it.next().unwrap_or("");
                format!("panic\t{}\t{}", site.rsplit_once(':').map_or(site, |x| x.0), msg_class(msg))
            } else {
                format!("{}\t{}\t{}", class, fs[fi].path.file_name().unwrap().to_string_lossy(), KINDS[ki])
            };
            let e = sites.entry(key).or_insert((0, json!({"file": fs[fi].path.to_string_lossy(), "line": li + 1, "edit": KINDS[ki], "file_kind": fs[fi].kind})));
            e.0 += 1;
        }
    }
    for h in hs {
        let _ = h.join();
    }
    for (key, (n, ex)) in &sites {
        let mut it = key.split('\t');
        let class = it.next().unwrap_or("?");
        cw.write(json!({"op": "noop", "label": format!("{}:{}", class, it.clone().next().unwrap_or("")), "kind": "failure",
            "impl": {"class": class, "site": it.next(), "msg": it.next(), "count": n, "first_example": ex}}));
    }
    edge_cases(&mut cw, args.seed, if thorough { 4000 } else { 600 });
    verdict_cases(&mut cw, args.seed, if thorough { 24000 } else { 5200 });
    cw.write(json!({"op": "noop", "label": "summary", "kind": "summary",
        "impl": {"files": fs.len(), "lines": counts.iter().sum::<usize>(), "stride": stride, "outcomes": totals, "by_edit_and_file_kind": per_kind,
                 "exhaustive": stride == 1}}));
    cw.finish();
    std::fs::remove_dir_all(&tmp).ok();
    0
}
