//! C05, lock traces (only in the build with `--cfg cteenergymodel_verif`): indicator computations on one and on several threads
//! with the hook of /repo recording every acquisition and release of the three global tables; the events go to the Lean driver,
//! which replays them on the process machine (`Proc.replay`).
use crate::genmodel::{gen_model, GenOpts};
use crate::rng::Rng;
use crate::Args;
use bemodel::climatedata::{CLIMATEMETADATA, JULYRADDATA, MONTHLYRADDATA};
use bemodel::verif_trace::{self, LockEventKind};
use bemodel::Model;
use serde_json::{json, Value};

fn scenario(label: &str, models: &[Model], threads: usize, runs: usize) -> Value {
    let names = [
        (verif_trace::address_of(&JULYRADDATA), "july"),
        (verif_trace::address_of(&CLIMATEMETADATA), "meta"),
        (verif_trace::address_of(&MONTHLYRADDATA), "monthly"),
    ];
    verif_trace::start();
    let ok: usize = std::thread::scope(|s| {
        let hs: Vec<_> = (0..threads)
            .map(|t| {
                s.spawn(move || {
                    let mut done = 0;
                    for r in 0..runs {
                        let m = &models[(t * runs + r) % models.len()];
                        if std::panic::catch_unwind(std::panic::AssertUnwindSafe(|| m.energy_indicators())).is_ok() {
                            done += 1;
                        }
                    }
                    done
                })
            })
            .collect();
        hs.into_iter().map(|h| h.join().unwrap_or(0)).sum()
    });
    let events = verif_trace::stop();
    let mut tids: Vec<std::thread::ThreadId> = vec![];
    let mut unknown = 0;
    let evs: Vec<Value> = events
        .iter()
        .map(|e| {
            let ti = match tids.iter().position(|t| *t == e.thread) {
                Some(i) => i,
                None => {
                    tids.push(e.thread);
                    tids.len() - 1
                }
            };
            let table = names.iter().find(|(a, _)| *a == e.mutex).map(|(_, n)| *n).unwrap_or_else(|| {
                unknown += 1;
                "unknown"
            });
            let kind = match e.kind {
                LockEventKind::Acquired => "lock",
                LockEventKind::Released => "unlock",
                LockEventKind::ReleasedPanicking => "unlock-panicking",
            };
            json!([ti, kind, table])
        })
        .collect();
    json!({"op": "locktrace", "kind": "locktrace", "label": label, "threads": threads, "runs": runs, "events": evs,
           "impl": {"events": events.len(), "threads_seen": tids.len(), "computations_finished": ok, "unknown_tables": unknown}})
}

pub fn run(args: &Args) -> i32 {
    use std::io::Write;
    let thorough = args.tier == "thorough";
    let mut models: Vec<Model> = crate::corpus::real_models(false).into_iter().map(|(_, m)| m).collect();
    let mut rng = Rng::new(args.seed ^ 0x10C5);
    for i in 0..8 {
        let mut r = rng.fork(i);
        models.push(gen_model(&mut r, &GenOpts { positions: i % 2 == 0, shades: (i % 3) as usize, schedules: i % 2 == 1, odd: i % 3 == 0, ..Default::default() }));
    }
    let mut f = std::io::BufWriter::new(std::fs::File::create(format!("{}/locktrace.jsonl", args.out)).expect("create"));
    let mut scenarios = vec![("one-thread", 1usize, 3usize), ("two-threads", 2, 4), ("eight-threads", 8, 3), ("sixteen-threads", 16, 2)];
    if thorough {
        scenarios.extend([("sixteen-threads-long", 16, 12), ("four-threads-long", 4, 40)]);
    }
    for (label, t, r) in scenarios {
        let v = scenario(label, &models, t, r);
        writeln!(f, "{}", serde_json::to_string(&v).unwrap()).ok();
    }
    f.flush().ok();
    0
}
