//! C12: obstruction factors: bounds, definition as a mean over the July day, monotonicity.
use crate::corpus::{guarded, Outcome};
use crate::genmodel::{gen_model, GenOpts};
use crate::props::{model_value, CaseWriter};
use crate::rng::Rng;
use crate::Args;
use bemodel::climatedata::{CLIMATEMETADATA, JULYRADDATA};
use bemodel::energy::ray_dir_to_sun;
use bemodel::{point, vector, Model, Shade, Vector3, WallGeom};
use climate::{nday_from_md, radiation_for_surface, SolarRadiation};
use serde_json::{json, Map, Value};

fn poly_normal_z(p: &bemodel::Polygon) -> f32 {
    if p.len() < 3 {
        return 1.0;
    }
    let v0 = p[1] - p[0];
    let v1 = p[2] - p[0];
    if v0.x * v1.y >= v0.y * v1.x {
        1.0
    } else {
        -1.0
    }
}

fn wall_normal(g: &WallGeom) -> Option<Vector3> {
    let m = g.to_global_coords_matrix()?;
    Some(m.rotation * vector![0.0, 0.0, poly_normal_z(&g.polygon)])
}

fn fsh_map(m: &Model) -> Outcome<Map<String, Value>> {
    guarded(|| {
        Ok(m.compute_fshobst()
            .iter()
            .map(|(k, v)| (k.to_string(), json!(v)))
            .collect())
    })
}

/// everything the definition needs, hour by hour, for one window
fn window_hours(m: &Model, w: &bemodel::Window, detail_hours: &[usize]) -> Option<Value> {
    let wall = m.get_wall(w.wall)?;
    let zone = m.meta.climate;
    let lat = CLIMATEMETADATA.lock().ok()?.get(&zone)?.latitude;
    let rad: Vec<bemodel::climatedata::RadData> = JULYRADDATA.lock().ok()?.get(&zone)?.clone();
    let occ = m.collect_occluders();
    let origins = m.ray_origins_for_window(w);
    let mut hours = vec![];
    for (hi, d) in rad.iter().enumerate() {
        let dir = ray_dir_to_sun(d.azimuth, d.altitude);
        let nday = nday_from_md(d.month, d.day);
        let r = radiation_for_surface(
            nday,
            d.hour,
            SolarRadiation { dir: d.dir, dif: d.dif },
            lat,
            wall.geometry.tilt,
            wall.geometry.azimuth,
            0.2,
        );
        let f = m.sunlit_fraction(w, &origins, &dir, &occ);
        let ndot = wall_normal(&wall.geometry).map(|n| n.dot(&dir));
        let mut h = json!({"hour": d.hour, "f": f, "dir": r.dir, "dif": r.dif, "ndot": ndot,
                           "sun": [dir.x, dir.y, dir.z]});
        if detail_hours.contains(&hi) {
            // the ray casting problem itself, for the exact model
            let cands: Vec<Value> = occ
                .iter()
                .filter(|o| o.id != wall.id && o.linked_to_id.map_or(true, |l| l == w.id))
                .filter_map(|o| {
                    let inv = o.trans_matrix?;
                    let rot = inv.rotation.matrix();
                    let tr = inv.translation.vector;
                    Some(json!({
                        "polygon": o.polygon.iter().map(|p| json!([p.x, p.y])).collect::<Vec<_>>(),
                        "inv_rot": [[rot[(0,0)], rot[(0,1)], rot[(0,2)]], [rot[(1,0)], rot[(1,1)], rot[(1,2)]], [rot[(2,0)], rot[(2,1)], rot[(2,2)]]],
                        "inv_tr": [tr.x, tr.y, tr.z],
                        "aabb": [o.aabb.min.x, o.aabb.min.y, o.aabb.min.z, o.aabb.max.x, o.aabb.max.y, o.aabb.max.z],
                    }))
                })
                .collect();
            h["detail"] = json!({
                "origins": origins.iter().map(|p| json!([p.x, p.y, p.z])).collect::<Vec<_>>(),
                "occluders": cands,
                "has_position": wall.geometry.position.is_some(),
            });
        }
        hours.push(h);
    }
    let n_candidates = occ
        .iter()
        .filter(|o| o.id != wall.id && o.linked_to_id.map_or(true, |l| l == w.id))
        .count();
    let n_reveals = occ.iter().filter(|o| o.linked_to_id == Some(w.id)).count();
    let placement = match (wall.geometry.position, w.geometry.position, wall.geometry.polygon.first(), wall.geometry.polygon.get(1)) {
        (Some(p), Some(wp), Some(v0), Some(v1)) if wall.geometry.polygon.len() > 2 => json!({
            "pos": [p.x, p.y, p.z], "azimuth": wall.geometry.azimuth, "tilt": wall.geometry.tilt, "v0": [v0.x, v0.y], "v1": [v1.x, v1.y],
            "x": wp.x, "y": wp.y, "w": w.geometry.width, "h": w.geometry.height, "setback": w.geometry.setback,
            "origins": origins.iter().map(|p| json!([p.x, p.y, p.z])).collect::<Vec<_>>()}),
        _ => Value::Null,
    };
    Some(json!({"window": w.id.to_string(), "n_candidates": n_candidates, "n_reveals": n_reveals, "setback": w.geometry.setback as f64, "placement": placement,
                "wall_has_position": wall.geometry.position.is_some(),
                "window_has_position": w.geometry.position.is_some(), "n_origins": origins.len(), "hours": hours}))
}

fn one_model(cw: &mut CaseWriter, label: &str, m: &Model, rng: &mut Rng) {
    let base = fsh_map(m);
    // metamorphic twin: one more obstacle
    let mut m2 = m.clone();
    m2.shades.push(Shade {
        name: "obstaculo_extra".into(),
        geometry: WallGeom {
            tilt: 90.0,
            azimuth: rng.f(-180.0, 180.0, 0),
            position: Some(point![rng.f(-12.0, 30.0, 1), rng.f(-15.0, 15.0, 1), 0.0]),
            polygon: vec![point![0.0, 0.0], point![rng.f(3.0, 20.0, 1), 0.0], point![20.0, 12.0], point![0.0, 12.0]],
        },
        ..Default::default()
    });
    let more = fsh_map(&m2);
    let (base_v, more_v) = match (&base, &more) {
        (Outcome::Ok(a), Outcome::Ok(b)) => (Value::Object(a.clone()), Value::Object(b.clone())),
        _ => (json!({"failed": format!("{:?}", base)}), json!({"failed": format!("{:?}", more)})),
    };
    let mut windows = vec![];
    if let Outcome::Ok(_) = base {
        let nw = m.windows.len();
        let picks: Vec<usize> = (0..nw.min(3)).map(|_| rng.below(nw)).collect();
        for (i, w) in m.windows.iter().enumerate() {
            let detail: Vec<usize> = if picks.contains(&i) { vec![rng.below(14), rng.below(14)] } else { vec![] };
            if let Outcome::Ok(Some(v)) = guarded(|| Ok(window_hours(m, w, &detail))) {
                windows.push(v);
            }
        }
    }
    // the sample points themselves, against the model of ray_origins_for_window (up to 4 windows per model)
    for w in windows.iter().filter(|w| !w["placement"].is_null()).take(4) {
        let pl = &w["placement"];
        let f = |k: &str| pl[k].as_f64().unwrap_or(0.0);
        let (ex, ey) = (pl["v1"][0].as_f64().unwrap_or(0.0) - pl["v0"][0].as_f64().unwrap_or(0.0), pl["v1"][1].as_f64().unwrap_or(0.0) - pl["v0"][1].as_f64().unwrap_or(0.0));
        let n = (ex * ex + ey * ey).sqrt();
        if n < 1e-9 {
            continue;
        }
        cw.write(json!({
            "op": "origins", "label": format!("{label}:origins:{}", w["window"].as_str().unwrap_or("?")), "kind": "origins",
            "position": pl["pos"], "v0": pl["v0"],
            "trig": {"az": [f("azimuth").to_radians().cos(), f("azimuth").to_radians().sin()], "t": [f("tilt").to_radians().cos(), f("tilt").to_radians().sin()], "e": [ex / n, ey / n]},
            "window": {"x": pl["x"], "y": pl["y"], "w": pl["w"], "h": pl["h"], "setback": pl["setback"]},
            "impl": {"origins": pl["origins"]}}));
    }
    cw.write(json!({
        "op": "fshobst", "label": label, "model": model_value(m),
        "n_occluders": m.collect_occluders().len(),
        "occluder_ids": match guarded(|| Ok(m.collect_occluders().iter().filter(|o| o.linked_to_id.is_none()).map(|o| o.id.to_string()).collect::<Vec<_>>())) { Outcome::Ok(v) => json!(v), _ => Value::Null },
        "windows": windows,
        "impl": {"fshobst": base_v, "fshobst_with_extra_obstacle": more_v},
    }));
}

pub fn run(args: &Args) -> i32 {
    let mut cw = CaseWriter::new(&args.out, "cases.jsonl");
    let mut rng = Rng::new(args.seed);
    if let Some(path) = args.extra.get("replay") {
        let txt = std::fs::read_to_string(path).expect("replay file");
        let v: Value = serde_json::from_str(&txt).expect("replay json");
        let m: Model = serde_json::from_value(v.pointer("/case/model").cloned().unwrap_or(Value::Null)).expect("replay model");
        one_model(&mut cw, "replay", &m, &mut rng);
        cw.finish();
        return 0;
    }
    for (label, m) in crate::corpus::real_models(args.tier == "thorough") {
        if m.windows.len() <= 40 || args.tier == "thorough" {
            one_model(&mut cw, &label, &m, &mut rng);
        }
    }
    for i in 0..args.n {
        let mut r = rng.fork(i as u64);
        let o = GenOpts {
            positions: i % 6 != 5,
            shades: [0usize, 0, 1, 3, 8, 40][i % 6],
            odd: i % 4 == 0,
            ..Default::default()
        };
        let m = gen_model(&mut r, &o);
        one_model(&mut cw, &format!("gen:{}:{}", args.seed, i), &m, &mut r);
    }
    // hand-built corner cases: window nothing can hide; window boxed in; wall without position
    {
        let mut r = rng.fork(999_999);
        let mut m = gen_model(&mut r, &GenOpts { positions: true, ..Default::default() });
        m.shades.clear();
        one_model(&mut cw, "corner:no-shades", &m, &mut r);
    }
    cw.finish();
    0
}
