//! C17: schedules — expansion of yearly schedules, HULC end dates, occupancy figures.
use crate::corpus::{guarded, Outcome};
use crate::genmodel::{gen_model, gen_schedules, GenOpts};
use crate::props::{model_value, CaseWriter};
use crate::rng::Rng;
use crate::Args;
use bemodel::{Model, ScheduleWeek};
use serde_json::{json, Value};

fn yeardays_cases(cw: &mut CaseWriter, rng: &mut Rng, n: usize) {
    for k in 0..n {
        let mut r = rng.fork(k as u64);
        let mut db = gen_schedules(&mut r, true);
        // odd weeks: one run of 7, a week shorter/longer than 7 days, an empty week, a dangling week id
        match k % 6 {
            1 => {
                let d = db.day[0].id;
                db.week[0].values = vec![(d, 7)];
            }
            2 => {
                let d = db.day[0].id;
                db.week[0].values = vec![(d, 3), (d, 2)];
            }
            3 => db.week[0].values = vec![],
            4 => {
                let bad = r.uuid();
                if let Some(y) = db.year.first_mut() {
                    if let Some(v) = y.values.first_mut() {
                        v.0 = bad;
                    }
                }
            }
            5 => {
                let d = db.day[0].id;
                db.week.push(ScheduleWeek { id: r.uuid(), name: "larga".into(), values: vec![(d, 9)] });
                let wid = db.week.last().unwrap().id;
                if let Some(y) = db.year.first_mut() {
                    if let Some(v) = y.values.last_mut() {
                        v.0 = wid;
                    }
                }
            }
            _ => {}
        }
        let mut m = Model::default();
        m.schedules = db.clone();
        let years: Vec<Value> = db
            .year
            .iter()
            .map(|y| {
                let days = db.get_year_as_day_sch(y.id);
                let vals = db.year_values(y.id);
                json!({"id": y.id.to_string(), "days": days.iter().map(|d| d.to_string()).collect::<Vec<_>>(), "n_values": vals.len()})
            })
            .collect();
        cw.write(json!({"op": "yeardays", "label": format!("yeardays:{}", k), "model": model_value(&m), "impl": {"years": years}}));
    }
}

/// rewrite the MONTH / DAY / WEEK-SCHEDULES lists of the first SCHEDULE-PD block with >= 1 period
fn rewrite_year_schedule(text: &str, dates: &[(u32, u32)]) -> Option<(String, String)> {
    let lines: Vec<&str> = text.lines().collect();
    let start = lines.iter().position(|l| l.trim_end().ends_with("= SCHEDULE-PD"))?;
    let end = start + lines[start..].iter().position(|l| l.trim() == "..")?;
    let name = lines[start].split('"').nth(1)?.to_string();
    let wk_line = lines[start..end].iter().find(|l| l.trim_start().starts_with("WEEK-SCHEDULES"))?;
    let weeks: Vec<String> = wk_line.split('"').skip(1).step_by(2).map(|s| s.to_string()).collect();
    if weeks.is_empty() {
        return None;
    }
    let mut out: Vec<String> = lines[..start + 1].iter().map(|s| s.to_string()).collect();
    for l in &lines[start + 1..end] {
        let t = l.trim_start();
        if t.starts_with("MONTH") || t.starts_with("DAY ") || t.starts_with("DAY=") || t.starts_with("WEEK-SCHEDULES") {
            continue;
        }
        out.push(l.to_string());
    }
    out.push(format!("  MONTH = ( {})", dates.iter().map(|d| d.1.to_string()).collect::<Vec<_>>().join(", ")));
    out.push(format!("  DAY   = ( {})", dates.iter().map(|d| d.0.to_string()).collect::<Vec<_>>().join(", ")));
    out.push(format!(
        "  WEEK-SCHEDULES = ( {})",
        (0..dates.len()).map(|i| format!("\"{}\"", weeks[i % weeks.len()])).collect::<Vec<_>>().join(", ")
    ));
    out.extend(lines[end..].iter().map(|s| s.to_string()));
    Some((name, out.join("\n")))
}

const DIM: [u32; 12] = [31, 28, 31, 30, 31, 30, 31, 31, 30, 31, 30, 31];

fn enddate_cases(cw: &mut CaseWriter, rng: &mut Rng, n: usize, all_dates: bool) {
    let path = format!("{}/hulc_tests/tests/cubo/cubo.ctehexml", crate::corpus::REPO);
    let text = match std::fs::read_to_string(&path) {
        Ok(t) => t,
        Err(_) => return,
    };
    let mut lists: Vec<Vec<(u32, u32)>> = vec![];
    if all_dates {
        for m in 1..=12u32 {
            for d in 1..=DIM[m as usize - 1] {
                if (d, m) != (31, 12) {
                    lists.push(vec![(d, m), (31, 12)]);
                }
            }
        }
    }
    for k in 0..n {
        let mut r = rng.fork(7000 + k as u64);
        let np = r.range(1, 12);
        let mut ords: Vec<u32> = (0..np - 1).map(|_| 1 + r.below(364) as u32).collect();
        ords.sort_unstable();
        ords.dedup();
        let mut l: Vec<(u32, u32)> = ords
            .iter()
            .map(|o| {
                let mut rest = *o;
                let mut m = 1;
                while rest > DIM[m - 1] {
                    rest -= DIM[m - 1];
                    m += 1;
                }
                (rest, m as u32)
            })
            .collect();
        l.push((31, 12));
        lists.push(l);
    }
    for (k, dates) in lists.iter().enumerate() {
        let (name, newtext) = match rewrite_year_schedule(&text, dates) {
            Some(x) => x,
            None => return,
        };
        let res = guarded(|| {
            let data = hulc::ctehexml::parse_with_catalog(&newtext)?;
            let m = Model::try_from(&data)?;
            let y = m.schedules.year.iter().find(|y| y.name == name).map(|y| y.values.iter().map(|v| v.1).collect::<Vec<u32>>());
            Ok(y)
        });
        let imp = match res {
            Outcome::Ok(Some(c)) => json!({"outcome": "ok", "counts": c}),
            Outcome::Ok(None) => json!({"outcome": "schedule-missing"}),
            Outcome::Err(e) => json!({"outcome": "err", "msg": e}),
            Outcome::Panic(p) => json!({"outcome": "panic", "msg": p}),
        };
        cw.write(json!({"op": "enddates", "label": format!("enddates:{}", k), "schedule": name,
                        "dates": dates.iter().map(|d| json!([d.0, d.1])).collect::<Vec<_>>(), "impl": imp}));
    }
}

fn occupancy_cases(cw: &mut CaseWriter, rng: &mut Rng, n: usize, lider: bool) {
    let one = |cw: &mut CaseWriter, label: &str, m: &Model| {
        let imp = match guarded(|| {
            let ind = m.energy_indicators();
            Ok(json!({"outcome": "ok", "hours_in_use": ind.props.global.occ_spaces_hours_in_use,
                      "average_load": ind.props.global.occ_spaces_average_load,
                      "loads_avg": ind.props.loads.iter().map(|(k, v)| (k.to_string(), json!(v.loads_avg))).collect::<serde_json::Map<_, _>>()}))
        }) {
            Outcome::Ok(v) => v,
            Outcome::Err(e) => json!({"outcome": "err", "msg": e}),
            Outcome::Panic(p) => json!({"outcome": "panic", "msg": p}),
        };
        cw.write(json!({"op": "occupancy", "label": label, "model": model_value(m), "impl": imp}));
    };
    for (label, m) in crate::corpus::real_models(lider) {
        one(cw, &label, &m);
    }
    for k in 0..n {
        let mut r = rng.fork(9000 + k as u64);
        let m = gen_model(&mut r, &GenOpts { schedules: true, odd: k % 3 == 0, ..Default::default() });
        one(cw, &format!("gen-occ:{}", k), &m);
    }
}

/// weekly schedules of generated HULC projects: the written 7 day names against the runs the conversion produces
fn weekrun_cases(cw: &mut CaseWriter, rng: &mut Rng, n: usize) {
    use hulc::bdl::Schedule;
    for i in 0..n {
        let p = crate::bdlgen::gen_proj(rng, &crate::bdlgen::GenOpts { rotated_spaces: false, polygon_outlines: i % 2 == 1 });
        let text = crate::bdlgen::print_proj(&p);
        let data = match guarded(|| hulc::bdl::Data::new(&text)) {
            Outcome::Ok(d) => d,
            _ => continue,
        };
        let weeks: Vec<(String, Vec<String>)> = data.schedules.iter().filter_map(|s| match s {
            Schedule::Week(w) => Some((w.name.clone(), w.days.clone())),
            _ => None,
        }).collect();
        let cd = hulc::ctehexml::CtehexmlData { bdldata: data, ..Default::default() };
        let m = match guarded(|| Model::try_from(&cd)) {
            Outcome::Ok(m) => m,
            _ => continue,
        };
        for (name, days) in weeks {
            if let Some(w) = m.schedules.week.iter().find(|w| w.name == name) {
                let runs: Vec<Value> = w.values.iter().map(|(id, cnt)| {
                    let dn = m.schedules.day.iter().find(|d| d.id == *id).map(|d| d.name.clone());
                    json!([dn, cnt])
                }).collect();
                cw.write(json!({"op": "weekruns", "label": format!("week:{i}:{name}"), "days": days, "impl": {"runs": runs}}));
            }
        }
    }
}

pub fn run(args: &Args) -> i32 {
    let mut cw = CaseWriter::new(&args.out, "cases.jsonl");
    let mut rng = Rng::new(args.seed);
    let thorough = args.tier == "thorough";
    yeardays_cases(&mut cw, &mut rng, args.n);
    enddate_cases(&mut cw, &mut rng, if thorough { 400 } else { 40 }, thorough);
    occupancy_cases(&mut cw, &mut rng, args.n / 2, thorough);
    weekrun_cases(&mut cw, &mut rng.fork(77), if thorough { 300 } else { 30 });
    cw.finish();
    0
}
