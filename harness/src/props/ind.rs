//! Shared harness of the indicator properties (C06–C11, C14 finiteness): run
//! `energy_indicators()` on real and generated models and record everything it reports.
use crate::corpus::{guarded, real_models, Outcome};
use crate::genmodel::{gen_model, GenOpts};
use crate::props::{model_value, CaseWriter};
use crate::rng::Rng;
use crate::Args;
use bemodel::climatedata::total_radiation_in_july_by_orientation;
use bemodel::Model;
use serde_json::{json, Map, Value};

pub fn observe(m: &Model) -> (Value, Value, Value) {
    // (impl, fshobst, radjul)
    let radjul: Map<String, Value> = total_radiation_in_july_by_orientation(&m.meta.climate)
        .iter()
        .map(|(o, v)| (serde_json::to_value(o).unwrap().as_str().unwrap().to_string(), json!(v)))
        .collect();
    match guarded(|| Ok(m.energy_indicators())) {
        Outcome::Ok(ind) => {
            let fsh: Map<String, Value> = ind
                .props
                .windows
                .iter()
                .map(|(id, w)| (id.to_string(), json!(w.f_shobst)))
                .collect();
            let v = serde_json::to_value(&ind).unwrap_or(Value::Null);
            let vent_u = m.global_ventilation_rate();
            let loads_back = match ind.as_json() {
                Ok(txt) => serde_json::from_str::<bemodel::energy::EnergyIndicators>(&txt)
                    .map(|_| true)
                    .unwrap_or(false),
                Err(_) => false,
            };
            // the obstruction factors asked of the model directly (not through the indicators' props)
            let direct: Map<String, Value> = m.compute_fshobst().iter().map(|(id, f)| (id.to_string(), json!(f))).collect();
            (
                json!({"outcome": "ok", "ind": v, "vent_u": vent_u, "loads_back": loads_back, "fshobst_direct": direct}),
                Value::Object(fsh),
                Value::Object(radjul),
            )
        }
        Outcome::Err(e) => (json!({"outcome": "err", "msg": e}), json!({}), Value::Object(radjul)),
        Outcome::Panic(p) => (json!({"outcome": "panic", "msg": p}), json!({}), Value::Object(radjul)),
    }
}

pub fn one_case(cw: &mut CaseWriter, label: &str, m: &Model, tags: Value) {
    let (imp, fsh, rad) = observe(m);
    cw.write(json!({
        "op": "indicators", "label": label, "tags": tags,
        "model": model_value(m), "fshobst": fsh, "radjul": rad, "impl": imp,
    }));
}

pub fn profile(i: usize) -> GenOpts {
    GenOpts {
        broken: i % 7 == 3,
        unused: i % 5 == 0,
        odd: i % 3 == 0,
        schedules: i % 4 == 1,
        // one model in five is a box building with coherent positions and a few shades: computed obstruction factors below 1
        positions: i % 5 == 2,
        shades: if i % 5 == 2 { 3 + i % 4 } else { 0 },
        ..Default::default()
    }
}

pub fn run(args: &Args) -> i32 {
    let mut cw = CaseWriter::new(&args.out, "cases.jsonl");
    if let Some(path) = args.extra.get("replay") {
        let txt = std::fs::read_to_string(path).expect("replay file");
        let v: Value = serde_json::from_str(&txt).expect("replay json");
        let mj = v.pointer("/case/model").cloned().unwrap_or(Value::Null);
        let m: Model = serde_json::from_value(mj).expect("replay model");
        one_case(&mut cw, "replay", &m, json!({}));
        cw.finish();
        return 0;
    }
    for (label, m) in real_models(args.tier == "thorough") {
        one_case(&mut cw, &label, &m, json!({"real": true}));
    }
    let mut rng = Rng::new(args.seed);
    for i in 0..args.n {
        let mut r = rng.fork(i as u64);
        let o = profile(i);
        let m = gen_model(&mut r, &o);
        one_case(&mut cw, &format!("gen:{}:{}", args.seed, i), &m,
            json!({"broken": o.broken, "odd": o.odd}));
    }
    cw.finish();
    0
}
