//! C15: `bemodel::check` on broken and real models.
use crate::corpus::{guarded, real_models, Outcome};
use crate::genmodel::{gen_model, GenOpts};
use crate::props::{model_value, CaseWriter};
use crate::rng::Rng;
use crate::Args;
use bemodel::{Model, Warning};
use serde_json::{json, Value};

pub fn warn_kind(msg: &str) -> &'static str {
    if msg.starts_with("Muro") {
        if msg.contains("referencia incorrecta de espacio adyacente") {
            "wall-nextto"
        } else if msg.contains("referencia incorrecta de espacio") {
            "wall-space"
        } else if msg.contains("referencia incorrecta de construcción") {
            "wall-cons"
        } else {
            "unknown"
        }
    } else if msg.starts_with("Hueco") {
        if msg.contains("referencia incorrecta de opaco") {
            "win-wall"
        } else if msg.contains("referencia incorrecta de construcción") {
            "win-cons"
        } else {
            "unknown"
        }
    } else if msg.starts_with("Puente térmico") && msg.contains("longitud negativa") {
        "tb-negative"
    } else {
        "unknown"
    }
}

pub fn warnings_value(ws: &[Warning]) -> Value {
    Value::Array(
        ws.iter()
            .map(|w| {
                json!([
                    w.id.map(|i| i.to_string()),
                    warn_kind(&w.msg),
                    w.level.to_string()
                ])
            })
            .collect(),
    )
}

fn one_case(cw: &mut CaseWriter, label: &str, m: &Model, with_indicators: bool) {
    let before = m.as_json().unwrap_or_default();
    let ws = bemodel::check(m);
    let after = m.as_json().unwrap_or_default();
    let ind_warnings = if with_indicators {
        match guarded(|| Ok(m.energy_indicators().warnings)) {
            Outcome::Ok(w) => warnings_value(&w),
            Outcome::Err(e) => json!({ "err": e }),
            Outcome::Panic(p) => json!({ "panic": p }),
        }
    } else {
        Value::Null
    };
    cw.write(json!({
        "op": "check",
        "label": label,
        "model": model_value(m),
        "impl": {
            "warnings": warnings_value(&ws),
            "unmodified": before == after,
            "indicator_warnings": ind_warnings,
        }
    }));
}

pub fn run(args: &Args) -> i32 {
    let mut cw = CaseWriter::new(&args.out, "cases.jsonl");
    // corpus first
    for (label, m) in real_models(args.tier == "thorough") {
        one_case(&mut cw, &label, &m, true);
    }
    // hand-written corner cases: -0.0 length, nil ids
    {
        let mut m = Model::default();
        m.thermal_bridges.push(bemodel::ThermalBridge {
            l: -0.0,
            ..Default::default()
        });
        m.thermal_bridges.push(bemodel::ThermalBridge {
            l: 0.0,
            ..Default::default()
        });
        m.thermal_bridges.push(bemodel::ThermalBridge {
            l: -1e-30,
            ..Default::default()
        });
        one_case(&mut cw, "corner:neg-zero-bridge", &m, false);
    }
    let mut rng = Rng::new(args.seed);
    for i in 0..args.n {
        let mut r = rng.fork(i as u64);
        let o = GenOpts {
            broken: i % 4 != 0,
            unused: i % 3 == 0,
            odd: i % 2 == 0,
            schedules: i % 5 == 0,
            ..Default::default()
        };
        let m = gen_model(&mut r, &o);
        // indicators only for models without geometric positions (no ray casting involved)
        one_case(&mut cw, &format!("gen:{}:{}", args.seed, i), &m, true);
    }
    cw.finish();
    0
}
