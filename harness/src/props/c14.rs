//! C14: totality of the indicator computation under structural edits of the model JSON.
use crate::genmodel::{gen_model, GenOpts};
use crate::props::CaseWriter;
use crate::rng::Rng;
use crate::Args;
use bemodel::Model;
use serde_json::{json, Value};
use std::sync::mpsc;
use std::time::Duration;

#[derive(Clone, Debug)]
enum Step {
    Key(String),
    Idx(usize),
}

#[derive(Clone, Debug)]
pub struct Edit {
    path: Vec<Step>,
    kind: &'static str,
}

fn is_uuid(s: &str) -> bool {
    s.len() == 36 && s.as_bytes()[8] == b'-' && s.as_bytes()[13] == b'-'
}

/// every single structural edit applicable to the tree
fn enumerate(v: &Value, path: &mut Vec<Step>, out: &mut Vec<Edit>) {
    match v {
        Value::Object(o) => {
            for (k, x) in o {
                path.push(Step::Key(k.clone()));
                out.push(Edit { path: path.clone(), kind: "delete-key" });
                enumerate(x, path, out);
                path.pop();
            }
        }
        Value::Array(a) => {
            if !a.is_empty() {
                out.push(Edit { path: path.clone(), kind: "empty-array" });
                out.push(Edit { path: path.clone(), kind: "truncate-array" });
            }
            for (i, x) in a.iter().enumerate() {
                path.push(Step::Idx(i));
                out.push(Edit { path: path.clone(), kind: "delete-item" });
                out.push(Edit { path: path.clone(), kind: "duplicate-item" });
                enumerate(x, path, out);
                path.pop();
            }
        }
        Value::Number(_) => {
            out.push(Edit { path: path.clone(), kind: "zero" });
            out.push(Edit { path: path.clone(), kind: "negate" });
        }
        Value::String(s) if is_uuid(s) => {
            out.push(Edit { path: path.clone(), kind: "nil-id" });
            out.push(Edit { path: path.clone(), kind: "redirect-id" });
        }
        _ => {}
    }
}

fn get_mut<'a>(v: &'a mut Value, path: &[Step]) -> Option<&'a mut Value> {
    let mut cur = v;
    for s in path {
        cur = match s {
            Step::Key(k) => cur.get_mut(k)?,
            Step::Idx(i) => cur.get_mut(*i)?,
        };
    }
    Some(cur)
}

fn apply(v: &mut Value, e: &Edit, other_id: &str) -> bool {
    match e.kind {
        "delete-key" => {
            let (last, parent) = e.path.split_last().unwrap();
            if let (Step::Key(k), Some(Value::Object(o))) = (last, get_mut(v, parent)) {
                return o.remove(k).is_some();
            }
            false
        }
        "delete-item" | "duplicate-item" => {
            let (last, parent) = e.path.split_last().unwrap();
            if let (Step::Idx(i), Some(Value::Array(a))) = (last, get_mut(v, parent)) {
                if *i < a.len() {
                    if e.kind == "delete-item" {
                        a.remove(*i);
                    } else {
                        let c = a[*i].clone();
                        a.insert(*i, c);
                    }
                    return true;
                }
            }
            false
        }
        "empty-array" => {
            if let Some(Value::Array(a)) = get_mut(v, &e.path) {
                a.clear();
                return true;
            }
            false
        }
        "truncate-array" => {
            if let Some(Value::Array(a)) = get_mut(v, &e.path) {
                let n = a.len() / 2;
                a.truncate(n);
                return true;
            }
            false
        }
        "zero" => {
            if let Some(x) = get_mut(v, &e.path) {
                if x.is_number() {
                    *x = if x.is_f64() { json!(0.0) } else { json!(0) };
                    return true;
                }
            }
            false
        }
        "negate" => {
            if let Some(x) = get_mut(v, &e.path) {
                if let Some(f) = x.as_f64() {
                    *x = if x.is_f64() { json!(-f) } else { json!(-(f as i64)) };
                    return true;
                }
            }
            false
        }
        "nil-id" => {
            if let Some(x) = get_mut(v, &e.path) {
                *x = json!("00000000-0000-0000-0000-000000000000");
                return true;
            }
            false
        }
        "redirect-id" => {
            if let Some(x) = get_mut(v, &e.path) {
                *x = json!(other_id);
                return true;
            }
            false
        }
        _ => false,
    }
}

fn collect_ids(v: &Value, out: &mut Vec<String>) {
    match v {
        Value::Object(o) => o.values().for_each(|x| collect_ids(x, out)),
        Value::Array(a) => a.iter().for_each(|x| collect_ids(x, out)),
        Value::String(s) if is_uuid(s) => out.push(s.clone()),
        _ => {}
    }
}

fn path_str(p: &[Step]) -> String {
    p.iter()
        .map(|s| match s {
            Step::Key(k) => format!("/{k}"),
            Step::Idx(i) => format!("/{i}"),
        })
        .collect()
}

fn all_finite(v: &Value) -> Option<String> {
    // serde prints non-finite floats as null: a null where the type is a plain number shows as a load failure below;
    // here we only look for nulls in places that are numbers in EnergyIndicators by name
    fn walk(v: &Value, path: &mut String, bad: &mut Option<String>) {
        if bad.is_some() {
            return;
        }
        match v {
            Value::Object(o) => {
                for (k, x) in o {
                    let l = path.len();
                    path.push('/');
                    path.push_str(k);
                    if x.is_null()
                        && !matches!(k.as_str(), "u_value" | "u_value_override" | "f_shobst" | "f_shobst_override" | "u_max" | "u_min" | "u_mean" | "n_v" | "illuminance" | "veei" | "loads" | "thermostat" | "space_next" | "n_50_test_ach" | "people_schedule" | "equipment_schedule" | "lighting_schedule" | "id" | "resistance")
                    {
                        *bad = Some(path.clone());
                    }
                    walk(x, path, bad);
                    path.truncate(l);
                }
            }
            Value::Array(a) => a.iter().for_each(|x| walk(x, path, bad)),
            _ => {}
        }
    }
    let mut bad = None;
    walk(v, &mut String::new(), &mut bad);
    bad
}

/// closed, unique ids, positive sizes, non-negative physical data, consistent schedules
pub fn why_not_sane(m: &Model) -> Option<u32> {
    use std::collections::HashSet;
    let uniq = |ids: Vec<bemodel::Uuid>| ids.iter().collect::<HashSet<_>>().len() == ids.len();
    if !bemodel::check(m).is_empty() {
        return Some(1);
    }
    if !uniq(m.spaces.iter().map(|x| x.id).collect())
        || !uniq(m.walls.iter().map(|x| x.id).collect())
        || !uniq(m.windows.iter().map(|x| x.id).collect())
        || !uniq(m.cons.wallcons.iter().map(|x| x.id).collect())
        || !uniq(m.cons.wincons.iter().map(|x| x.id).collect())
        || !uniq(m.cons.materials.iter().map(|x| x.id).collect())
    {
        return Some(2);
    }
    let mats: HashSet<_> = m.cons.materials.iter().map(|x| x.id).collect();
    let glasses: HashSet<_> = m.cons.glasses.iter().map(|x| x.id).collect();
    let frames: HashSet<_> = m.cons.frames.iter().map(|x| x.id).collect();
    for c in &m.cons.wallcons {
        if c.layers.is_empty() || c.layers.iter().any(|l| !mats.contains(&l.material) || l.e <= 0.0) {
            return Some(3);
        }
    }
    for mt in &m.cons.materials {
        match mt.properties {
            bemodel::MatProps::Detailed { conductivity, .. } if conductivity <= 0.0 => return Some(30),
            bemodel::MatProps::Resistance { resistance, .. } if resistance <= 0.0 => return Some(31),
            _ => {}
        }
    }
    for c in &m.cons.wincons {
        if !glasses.contains(&c.glass) || !frames.contains(&c.frame) || !(0.0..=1.0).contains(&c.f_f) || c.delta_u < 0.0 || c.c_100 < 0.0 {
            return Some(4);
        }
    }
    if m.cons.glasses.iter().any(|g| g.u_value <= 0.0 || g.g_gln < 0.0) || m.cons.frames.iter().any(|f| f.u_value <= 0.0) {
        return Some(5);
    }
    if m.spaces.iter().any(|s| s.height <= 0.5 || s.multiplier <= 0.0 || s.n_v.map_or(false, |n| n < 0.0)) {
        return Some(6);
    }
    for w in &m.walls {
        let a = {
            let p = &w.geometry.polygon;
            let n = p.len();
            if n < 3 {
                0.0
            } else {
                (0..n).map(|i| p[i].x * p[(i + 1) % n].y - p[i].y * p[(i + 1) % n].x).sum::<f32>().abs() * 0.5
            }
        };
        if a <= 0.01 {
            return Some(7);
        }
        if w.bounds == bemodel::BoundaryType::INTERIOR && w.next_to.is_none() {
            return Some(8);
        }
    }
    if m.windows.iter().any(|w| w.geometry.width <= 0.0 || w.geometry.height <= 0.0 || w.geometry.setback < 0.0) {
        return Some(9);
    }
    // when a building-wide ventilation flow is given, there is habitable floor area inside the envelope to refer it to
    let has_floor = |sid: bemodel::Uuid| {
        m.walls.iter().any(|w| w.space == sid && bemodel::Tilt::from(w.geometry.tilt) == bemodel::Tilt::BOTTOM)
    };
    if m.meta.global_ventilation_l_s.is_some()
        && !m.spaces.iter().any(|s| s.inside_tenv && s.kind != bemodel::SpaceType::UNINHABITED && has_floor(s.id))
    {
        return Some(10);
    }
    if m.meta.global_ventilation_l_s.map_or(false, |v| v < 0.0) || m.meta.d_perim_insulation < 0.0 || m.meta.rn_perim_insulation < 0.0 {
        return Some(12);
    }
    // schedules: referenced ids exist, days have 24 values, weeks 7 days, years 365 days
    let days: HashSet<_> = m.schedules.day.iter().map(|d| d.id).collect();
    let weeks: HashSet<_> = m.schedules.week.iter().map(|d| d.id).collect();
    let years: HashSet<_> = m.schedules.year.iter().map(|d| d.id).collect();
    if m.schedules.day.iter().any(|d| d.values.len() != 24)
        || m.schedules.week.iter().any(|w| w.values.iter().map(|v| v.1).sum::<u32>() != 7 || w.values.iter().any(|v| !days.contains(&v.0)))
        || m.schedules.year.iter().any(|y| y.values.iter().map(|v| v.1).sum::<u32>() != 365 || y.values.iter().any(|v| !weeks.contains(&v.0)))
    {
        return Some(14);
    }
    let loads: HashSet<_> = m.loads.iter().map(|d| d.id).collect();
    if m.spaces.iter().any(|s| s.loads.map_or(false, |l| !loads.contains(&l))) {
        return Some(15);
    }
    for l in &m.loads {
        for s in [l.people_schedule, l.equipment_schedule, l.lighting_schedule].into_iter().flatten() {
            if !years.contains(&s) {
                return Some(16);
            }
        }
    }
    None
}

pub fn sane(m: &Model) -> bool {
    why_not_sane(m).is_none()
}

struct Base {
    label: String,
    tree: Value,
    ids: Vec<String>,
    edits: Vec<Edit>,
}

fn bases(seed: u64, n_gen: usize, lider: bool) -> Vec<Base> {
    let mut out = vec![];
    let mut models: Vec<(String, Model)> = crate::corpus::real_models(lider).into_iter().filter(|(l, _)| l.starts_with("file:") || lider).collect();
    let mut rng = Rng::new(seed ^ 0xC14);
    for i in 0..n_gen {
        let mut r = rng.fork(i as u64);
        let o = GenOpts { positions: i % 2 == 0, shades: i % 3, schedules: true, odd: i % 4 == 0, ..Default::default() };
        models.push((format!("gen:{}:{}", seed, i), gen_model(&mut r, &o)));
    }
    // louvres: the shipped cube with 34 identical slats stacked in front of its window, centred at several decimal coordinates (the
    // obstacles' centres coincide on two axes: the partition of the acceleration structure degenerates in f32 for some of them)
    if let Some((_, cubo)) = crate::corpus::real_models(false).into_iter().find(|(l, _)| l.contains("cubo")) {
        for (k, x0) in [4.05f32, 3.1, 7.3, 2.35, 5.55, 6.7, 1.15, 8.45].iter().enumerate() {
            let mut m = cubo.clone();
            for j in 0..34 {
                m.shades.push(bemodel::Shade {
                    name: format!("lama{j}"),
                    geometry: bemodel::WallGeom { tilt: 0.0, azimuth: 0.0, position: Some(bemodel::point![*x0, -1.0 - 0.1 * k as f32, 0.5 + 0.05 * j as f32]),
                        polygon: vec![bemodel::point![0.0, 0.0], bemodel::point![2.1, 0.0], bemodel::point![2.1, 0.3], bemodel::point![0.0, 0.3]] },
                    ..Default::default()
                });
            }
            models.push((format!("louvre:{x0}"), m));
        }
    }
    // editor-minimal models: grown element by element from the default
    {
        let mut m = Model::default();
        models.push(("editor:default".into(), m.clone()));
        let sp = bemodel::Space::default();
        m.spaces.push(sp.clone());
        models.push(("editor:+space".into(), m.clone()));
        let mut w = bemodel::Wall::default();
        w.space = sp.id;
        m.walls.push(w.clone());
        models.push(("editor:+wall".into(), m.clone()));
        m.cons.wallcons.push(bemodel::WallCons::default());
        m.walls[0].cons = m.cons.wallcons[0].id;
        models.push(("editor:+wallcons".into(), m.clone()));
        let mut win = bemodel::Window::default();
        win.wall = w.id;
        m.windows.push(win);
        models.push(("editor:+window".into(), m.clone()));
        m.walls[0].geometry.position = Some(bemodel::point![0.0, 0.0, 0.0]);
        m.walls[0].geometry.polygon = vec![bemodel::point![0.0, 0.0], bemodel::point![4.0, 0.0], bemodel::point![4.0, 3.0], bemodel::point![0.0, 3.0]];
        m.windows[0].geometry.position = Some(bemodel::point![1.0, 1.0]);
        models.push(("editor:+positions".into(), m.clone()));
        m.thermal_bridges.push(bemodel::ThermalBridge::default());
        m.shades.push(bemodel::Shade::default());
        models.push(("editor:+bridge+shade".into(), m.clone()));
    }
    for (label, m) in models {
        let tree = serde_json::to_value(&m).unwrap();
        let mut ids = vec![];
        collect_ids(&tree, &mut ids);
        ids.sort();
        ids.dedup();
        let mut edits = vec![];
        enumerate(&tree, &mut vec![], &mut edits);
        out.push(Base { label, tree, ids, edits });
    }
    out
}

/// the k-th case: (label, edited tree, edit descriptors)
fn make_case(bs: &[Base], seed: u64, k: usize, exhaustive: bool) -> Option<(String, Value, Vec<String>)> {
    if exhaustive {
        // k indexes (base, single edit)
        let mut kk = k;
        for b in bs {
            if kk < b.edits.len() + 1 {
                let mut t = b.tree.clone();
                if kk == 0 {
                    return Some((format!("{}#unedited", b.label), t, vec![]));
                }
                let e = &b.edits[kk - 1];
                let other = &b.ids[(kk * 7919) % b.ids.len().max(1)..].first().cloned().unwrap_or_default();
                apply(&mut t, e, other);
                return Some((format!("{}#{}", b.label, kk), t, vec![format!("{} {}", e.kind, path_str(&e.path))]));
            }
            kk -= b.edits.len() + 1;
        }
        return None;
    }
    let mut r = Rng::new(seed ^ 0xED17).fork(k as u64);
    let b = &bs[r.below(bs.len())];
    let mut t = b.tree.clone();
    let n_edits = *r.pick(&[1usize, 1, 1, 2, 2, 3]);
    let mut desc = vec![];
    for _ in 0..n_edits {
        let mut edits = vec![];
        enumerate(&t, &mut vec![], &mut edits);
        if edits.is_empty() {
            break;
        }
        let e = edits[r.below(edits.len())].clone();
        let other = if b.ids.is_empty() { String::new() } else { b.ids[r.below(b.ids.len())].clone() };
        if apply(&mut t, &e, &other) {
            desc.push(format!("{} {}", e.kind, path_str(&e.path)));
        }
    }
    Some((format!("{}~{}", b.label, k), t, desc))
}

fn run_one(tree: &Value, sane_model: &Model) -> Value {
    let txt = serde_json::to_string(tree).unwrap();
    let m = match Model::from_json(&txt) {
        Ok(m) => m,
        Err(e) => return json!({"outcome": "rejected-at-load", "msg": format!("{e:#}").chars().take(120).collect::<String>()}),
    };
    let is_sane = sane(&m);
    let loc = std::sync::Arc::new(std::sync::Mutex::new(String::new()));
    let loc2 = loc.clone();
    std::panic::set_hook(Box::new(move |info| {
        if let Some(l) = info.location() {
            *loc2.lock().unwrap() = format!("{}:{}", l.file().rsplit("/repo/").next().unwrap_or(l.file()), l.line());
        }
    }));
    let res = std::panic::catch_unwind(std::panic::AssertUnwindSafe(|| m.energy_indicators()));
    std::panic::set_hook(Box::new(|_| {}));
    match res {
        Ok(ind) => {
            let v = serde_json::to_value(&ind).unwrap_or(Value::Null);
            let nonfinite = all_finite(&v);
            let loads_back = ind
                .as_json()
                .ok()
                .map(|t| serde_json::from_str::<bemodel::energy::EnergyIndicators>(&t).is_ok())
                .unwrap_or(false);
            json!({"outcome": "ok", "sane": is_sane, "non_finite_at": nonfinite, "loads_back": loads_back})
        }
        Err(p) => {
            let msg = if let Some(s) = p.downcast_ref::<&str>() { s.to_string() } else if let Some(s) = p.downcast_ref::<String>() { s.clone() } else { "panic".into() };
            // isolation: a fixed sane model must still compute in this process
            let after = std::panic::catch_unwind(std::panic::AssertUnwindSafe(|| sane_model.energy_indicators().K_data.K));
            json!({"outcome": "panic", "sane": is_sane, "site": loc.lock().unwrap().clone(), "msg": msg.chars().take(120).collect::<String>(),
                   "later_computation_ok": after.is_ok()})
        }
    }
}

fn worker(args: &Args, from: usize, to: usize) -> i32 {
    use std::io::Write;
    let thorough = args.tier == "thorough";
    let bs = bases(args.seed, if thorough { 12 } else { 6 }, false);
    let sane_model = Model::from_json(&std::fs::read_to_string(format!("{}/bemodel/tests/data/cubo.json", crate::corpus::REPO)).unwrap_or_default()).unwrap_or_default();
    let out = std::io::stdout();
    for k in from..to {
        let (label, tree, desc) = match make_case(&bs, args.seed, k, args.extra.contains_key("exhaustive")) {
            Some(x) => x,
            None => break,
        };
        let imp = run_one(&tree, &sane_model);
        // one sane model in three (all of them when something is wrong) also goes to the Lean driver: sanity test of the
        // finiteness theorem + the model's own list of failed divisions
        let to_driver = imp["outcome"] == "ok" && imp["sane"] == true && (k % 3 == 0 || imp["non_finite_at"] != Value::Null);
        let keep_model = to_driver
            || (imp["outcome"] != "rejected-at-load" && (imp["outcome"] != "ok" || imp["non_finite_at"] != Value::Null || imp["loads_back"] == false || k % 50 == 0));
        let line = json!({"op": if to_driver { "saneu" } else { "noop" }, "label": label, "edits": desc, "impl": imp, "model": if keep_model { tree } else { Value::Null }});
        let mut o = out.lock();
        writeln!(o, "C14CASE {}", serde_json::to_string(&line).unwrap()).ok();
        o.flush().ok();
    }
    let mut o = out.lock();
    writeln!(o, "C14DONE").ok();
    0
}

static HANGS: std::sync::atomic::AtomicUsize = std::sync::atomic::AtomicUsize::new(0);

pub fn run(args: &Args) -> i32 {
    if let Some(from) = args.extra.get("worker-from") {
        let to = args.extra.get("worker-to").and_then(|s| s.parse().ok()).unwrap_or(0);
        return worker(args, from.parse().unwrap_or(0), to);
    }
    let mut cw = CaseWriter::new(&args.out, "cases.jsonl");
    if let Some(path) = args.extra.get("replay") {
        let txt = std::fs::read_to_string(path).expect("replay file");
        let v: Value = serde_json::from_str(&txt).expect("replay json");
        let tree = v.pointer("/case/model").cloned().unwrap_or(Value::Null);
        let sane_model = Model::default();
        cw.write(json!({"op": "noop", "label": "replay", "edits": [], "impl": run_one(&tree, &sane_model), "model": tree}));
        cw.finish();
        return 0;
    }
    use std::io::BufRead;
    use std::process::{Command, Stdio};
    let exe = std::env::current_exe().expect("current exe");
    let exhaustive = args.tier == "thorough";
    let total = if exhaustive {
        let bs = bases(args.seed, 12, false);
        bs.iter().map(|b| b.edits.len() + 1).sum::<usize>()
    } else {
        args.n
    };
    // parallel workers over disjoint ranges, each watched for progress
    let jobs = 16usize;
    let per = (total + jobs - 1) / jobs;
    let (tx, rx) = mpsc::channel::<(usize, Option<String>)>();
    let mut handles = vec![];
    for j in 0..jobs {
        let (from, to) = (j * per, ((j + 1) * per).min(total));
        if from >= to {
            continue;
        }
        let tx = tx.clone();
        let exe = exe.clone();
        let (seed, tier) = (args.seed, args.tier.clone());
        handles.push(std::thread::spawn(move || {
            let mut k = from;
            while k < to {
                let mut cmd = Command::new(&exe);
                cmd.args(["c14", "--seed", &seed.to_string(), "--tier", &tier, "--worker-from", &k.to_string(), "--worker-to", &to.to_string()]);
                if exhaustive {
                    cmd.args(["--exhaustive", "1"]);
                }
                let mut child = cmd.stdout(Stdio::piped()).stderr(Stdio::null()).spawn().expect("spawn");
                let stdout = child.stdout.take().unwrap();
                let (ltx, lrx) = mpsc::channel::<String>();
                std::thread::spawn(move || {
                    for line in std::io::BufReader::new(stdout).lines().map_while(Result::ok) {
                        if ltx.send(line).is_err() {
                            break;
                        }
                    }
                });
                loop {
                    match lrx.recv_timeout(Duration::from_secs(20)) {
                        Ok(line) => {
                            if let Some(rest) = line.strip_prefix("C14CASE ") {
                                tx.send((k, Some(rest.to_string()))).ok();
                                k += 1;
                            } else if line.starts_with("C14DONE") {
                                k = to;
                                break;
                            }
                        }
                        Err(mpsc::RecvTimeoutError::Timeout) => {
                            // hang on case k — or a busy machine: the case is a hang only if it also exceeds a minute in a worker of its own.
                            // Once three cases have been confirmed that way the machine is not the reason: later expiries are reported at
                            // once, and after 40 of them the rest of this worker's range is given up (one report per range is enough)
                            let _ = child.kill();
                            let seen = HANGS.fetch_add(1, std::sync::atomic::Ordering::SeqCst);
                            if seen >= 3 {
                                tx.send((k, None)).ok();
                                k = if seen >= 40 { to } else { k + 1 };
                                break;
                            }
                            let mut c2cmd = Command::new(&exe);
                            c2cmd.args(["c14", "--seed", &seed.to_string(), "--tier", &tier, "--worker-from", &k.to_string(), "--worker-to", &(k + 1).to_string()]);
                            if exhaustive {
                                c2cmd.args(["--exhaustive", "1"]);
                            }
                            let mut answer: Option<String> = None;
                            if let Ok(mut c2) = c2cmd.stdout(Stdio::piped()).stderr(Stdio::null()).spawn() {
                                let so = c2.stdout.take().unwrap();
                                let (t2, r2) = mpsc::channel::<String>();
                                std::thread::spawn(move || {
                                    for line in std::io::BufReader::new(so).lines().map_while(Result::ok) {
                                        if t2.send(line).is_err() {
                                            break;
                                        }
                                    }
                                });
                                let deadline = std::time::Instant::now() + Duration::from_secs(60);
                                while let Ok(l) = r2.recv_timeout(deadline.saturating_duration_since(std::time::Instant::now())) {
                                    if let Some(rest) = l.strip_prefix("C14CASE ") {
                                        answer = Some(rest.to_string());
                                        break;
                                    }
                                    if l.starts_with("C14DONE") {
                                        break;
                                    }
                                }
                                let _ = c2.kill();
                                let _ = c2.wait();
                            }
                            if answer.is_some() {
                                HANGS.fetch_sub(1, std::sync::atomic::Ordering::SeqCst);
                            }
                            tx.send((k, answer)).ok();
                            k += 1;
                            break;
                        }
                        Err(mpsc::RecvTimeoutError::Disconnected) => {
                            if k < to {
                                tx.send((k, Some(json!({"op": "noop", "label": format!("case {k}"), "edits": [], "model": null,
                                    "impl": {"outcome": "abort", "msg": "worker process died"}}).to_string()))).ok();
                                k += 1;
                            }
                            break;
                        }
                    }
                }
                let _ = child.kill();
                let _ = child.wait();
            }
        }));
    }
    drop(tx);
    for (k, line) in rx {
        match line {
            Some(l) => cw.write(serde_json::from_str(&l).unwrap_or(json!({"op": "noop", "label": "?", "impl": {"outcome": "garbled"}}))),
            None => cw.write(json!({"op": "noop", "label": format!("case {k}"), "edits": [], "model": null, "impl": {"outcome": "timeout"}})),
        }
    }
    for h in handles {
        let _ = h.join();
    }
    sun_facing_cases(&mut cw, exhaustive);
    cw.finish();
    0
}

/// sane models whose glazed wall looks straight at the July sun: for every design-day hour of a few climate zones the wall of the
/// `cubo` model that carries the window is turned so that its normal points at the sun, and a small grid of orientations around that
/// pose (steps of a thousandth of a degree) is computed — the angle of incidence is then the arc cosine of a sum that rounding can
/// push past 1
fn sun_facing_cases(cw: &mut CaseWriter, thorough: bool) {
    use bemodel::climatedata::JULYRADDATA;
    let Some((_, base)) = crate::corpus::real_models(false).into_iter().find(|(l, _)| l.contains("cubo")) else { return };
    let Some(win) = base.windows.first().cloned() else { return };
    let Some(wi) = base.walls.iter().position(|w| w.id == win.wall) else { return };
    let sane_model = Model::default();
    let mut zones: Vec<_> = JULYRADDATA.lock().map(|t| t.keys().cloned().collect::<Vec<_>>()).unwrap_or_default();
    zones.sort_by_key(|z| format!("{z:?}"));
    let zones: Vec<_> = if thorough { zones.into_iter().step_by(4).collect() } else { zones.into_iter().step_by(13).collect() };
    let (half, step) = if thorough { (10i32, 0.001f32) } else { (3, 0.003) };
    for zone in zones {
        let rad = JULYRADDATA.lock().ok().and_then(|t| t.get(&zone).cloned()).unwrap_or_default();
        for d in rad.iter() {
            let (t0, a0) = (90.0 - d.altitude, d.azimuth);
            let mut worst: Option<(Value, Value)> = None;
            let mut last = Value::Null;
            let mut n = 0;
            for i in -half..=half {
                for j in -half..=half {
                    let mut m = base.clone();
                    m.meta.climate = zone;
                    m.walls[wi].geometry.tilt = t0 + i as f32 * step;
                    m.walls[wi].geometry.azimuth = a0 + j as f32 * step;
                    let tree = serde_json::to_value(&m).unwrap_or(Value::Null);
                    let r = run_one(&tree, &sane_model);
                    n += 1;
                    let bad = r["outcome"] != "ok" || !r["non_finite_at"].is_null() || r["loads_back"] == false;
                    if bad && worst.is_none() {
                        worst = Some((tree, r.clone()));
                    }
                    last = r;
                }
            }
            let (tree, imp) = worst.unwrap_or((Value::Null, last));
            cw.write(json!({"op": "noop", "label": format!("sun-facing:{:?}:{}h", zone, d.hour),
                "edits": [format!("glazed wall turned to tilt {t0:.3} azimuth {a0:.3} and {n} orientations within {:.3} degrees of it", half as f32 * step)],
                "model": tree, "impl": imp}));
        }
    }
}

/// why a model is not sane (debug aid for the harness)
pub fn explain(args: &Args) -> i32 {
    for (label, m) in crate::corpus::real_models(false) {
        println!("{label}: sane={:?} check={} ", why_not_sane(&m), bemodel::check(&m).len());
    }
    let _ = args;
    0
}
