//! Type-directed generator of `bemodel::Model` values. Mostly valid, with switches for broken
//! links, unused items and geometric positions.
use crate::rng::Rng;
use bemodel::climatedata::ClimateZone;
use bemodel::*;

pub const ZONES: [&str; 32] = [
    "A1c", "A2c", "A3c", "A4c", "Alfa1c", "Alfa2c", "Alfa3c", "Alfa4c", "B1c", "B2c", "B3c", "B4c",
    "C1c", "C2c", "C3c", "C4c", "D1c", "D2c", "D3c", "E1c", "A3", "A4", "B3", "B4", "C1", "C2", "C3",
    "C4", "D1", "D2", "D3", "E1",
];

#[derive(Clone, Debug, Default)]
pub struct GenOpts {
    /// give walls/windows/shades coherent geometric positions (box buildings)
    pub positions: bool,
    /// redirect a random subset of links to absent / nil ids
    pub broken: bool,
    /// add unused items of every kind
    pub unused: bool,
    /// odd tilts, zero conductivities, empty stacks, zero multipliers…
    pub odd: bool,
    /// schedules / loads / thermostats
    pub schedules: bool,
    /// extra free-standing shades (when `positions`)
    pub shades: usize,
}

const TILTS_TOP: [f32; 5] = [0.0, 0.0, 30.0, 60.0, 359.9];
const TILTS_SIDE: [f32; 6] = [90.0, 90.0, 60.5, 100.0, 119.5, 270.0];
const TILTS_BOTTOM: [f32; 5] = [180.0, 180.0, 120.0, 135.0, 239.5];

fn rect(a: f32, b: f32) -> Polygon {
    vec![point![0.0, 0.0], point![a, 0.0], point![a, b], point![0.0, b]]
}

fn lshape(a: f32, b: f32) -> Polygon {
    let (a2, b2) = (a * 0.5, b * 0.5);
    vec![
        point![0.0, 0.0],
        point![a, 0.0],
        point![a, b2],
        point![a2, b2],
        point![a2, b],
        point![0.0, b],
    ]
}

pub fn gen_schedules(rng: &mut Rng, odd: bool) -> SchedulesDb {
    let mut db = SchedulesDb::default();
    let nday = rng.range(1, 4);
    for i in 0..nday {
        let pattern = rng.below(4);
        let values: Vec<f32> = (0..24)
            .map(|h| match pattern {
                0 => 0.0,
                1 => 1.0,
                2 => {
                    if (8..18).contains(&h) {
                        rng.f(0.1, 1.0, 2)
                    } else {
                        0.0
                    }
                }
                _ => {
                    if rng.chance(1, 2) {
                        rng.f(0.0, 1.0, 2)
                    } else {
                        0.0
                    }
                }
            })
            .collect();
        db.day.push(ScheduleDay {
            id: rng.uuid(),
            name: format!("dia{i}"),
            values,
        });
    }
    let nweek = rng.range(1, 3);
    for i in 0..nweek {
        // runs covering 7 days
        let mut left = 7u32;
        let mut values = vec![];
        while left > 0 {
            let c = 1 + rng.below(left as usize) as u32;
            values.push((db.day[rng.below(db.day.len())].id, c));
            left -= c;
        }
        db.week.push(ScheduleWeek {
            id: rng.uuid(),
            name: format!("semana{i}"),
            values,
        });
    }
    // a week whose later days use a daily schedule nothing else refers to, and a year of 52 whole weeks plus one day of that week
    let rest_week = if rng.chance(1, 3) {
        let only_here = ScheduleDay { id: rng.uuid(), name: "dia_resto".into(), values: (0..24).map(|h| if h % 3 == 0 { 0.5 } else { 0.0 }).collect() };
        let wk = ScheduleWeek { id: rng.uuid(), name: "semana_resto".into(), values: vec![(db.day[0].id, 1), (only_here.id, 6)] };
        db.day.push(only_here);
        let id = wk.id;
        db.week.push(wk);
        Some(id)
    } else {
        None
    };
    let nyear = rng.range(1, 3);
    for i in 0..nyear {
        let nper = rng.range(1, if odd { 12 } else { 5 });
        let mut cuts: Vec<u32> = (0..nper - 1).map(|_| 1 + rng.below(364) as u32).collect();
        cuts.push(365);
        cuts.sort_unstable();
        cuts.dedup();
        let mut prev = 0;
        let mut values = vec![];
        for c in cuts {
            values.push((db.week[rng.below(db.week.len())].id, c - prev));
            prev = c;
        }
        db.year.push(Schedule {
            id: rng.uuid(),
            name: format!("anual{i}"),
            values,
        });
    }
    // an almost empty day: a single hour at 2e-4 — non-zero (the threshold is 100 eps = 1.2e-5) although the daily mean is below it;
    // it takes the place of the first run of the first week (no random draw)
    {
        let id = {
            // derived from an existing id so that no random number is drawn
            let mut b = *db.day[0].id.as_bytes();
            b[15] ^= 0x5a;
            Uuid::from_bytes(b)
        };
        let mut values = vec![0.0f32; 24];
        values[9] = 2.0e-4;
        db.day.push(ScheduleDay { id, name: "dia_casi_vacio".into(), values });
        if let Some(first) = db.week[0].values.first_mut() {
            first.0 = id;
        }
    }
    if let Some(wk) = rest_week {
        // replaces the first yearly schedule, so that whatever used it now uses this layout
        let normal = db.week[0].id;
        db.year[0].values = vec![(normal, 364), (wk, 1)];
    }
    db
}

/// names a user may type: accents, quotes, backslashes, control characters, characters outside the basic multilingual plane
const ODD_NAMES: [&str; 12] = ["", "Muro 1/2\" // medianera", "Sala 2\"", "Fachada N//E http://x", "Vivienda 🏠 A", "𠀀𠀁 ático", "comillas \"dobles\" y \\ barra", "tab\ty\nsalto", "ñandú €uro", "\u{7f}\u{1}ctl", "𝔘-value 𝟚", "a\u{301}\u{200d}z"];

pub fn gen_model(rng: &mut Rng, o: &GenOpts) -> Model {
    let mut m = Model::default();
    // the envelope as a whole: 1 = nothing opaque towards outside air (every exterior wall is a curtain wall, the rest adiabatic),
    // 2 = no exterior wall at all (party walls adiabatic or interior, slab on the ground); such buildings often have a blower-door result
    let envelope_kind = if rng.chance(1, 12) { 1 } else if rng.chance(1, 12) { 2 } else { 0 };
    m.meta.name = if o.odd && rng.chance(1, 2) { rng.pick(&ODD_NAMES).to_string() } else { format!("gen{}", rng.below(100000)) };
    m.meta.climate = ClimateZone::try_from(*rng.pick(&ZONES)).unwrap();
    m.meta.is_new_building = rng.chance(1, 2);
    m.meta.is_dwelling = rng.chance(1, 2);
    m.meta.num_dwellings = rng.range(1, 4) as i32;
    m.meta.global_ventilation_l_s = if rng.chance(2, 3) {
        Some(if o.odd && rng.chance(1, 6) { 0.0 } else { rng.f(5.0, 400.0, 1) })
    } else {
        None
    };
    m.meta.n50_test_ach = if rng.chance(1, 3) || (envelope_kind != 0 && rng.chance(2, 3)) {
        Some(if o.odd && rng.chance(1, 6) { 0.0 } else { rng.f(0.5, 9.0, 2) })
    } else {
        None
    };
    if rng.chance(1, 3) {
        m.meta.d_perim_insulation = rng.f(0.3, 1.5, 2);
        m.meta.rn_perim_insulation = rng.f(0.5, 3.0, 2);
    }

    // ---- constructions
    let nmat = rng.range(2, 7);
    for i in 0..nmat {
        let props = if rng.chance(2, 3) {
            MatProps::Detailed {
                conductivity: if o.odd && rng.chance(1, 8) {
                    0.0
                } else {
                    rng.f(0.02, 2.5, 3)
                },
                density: rng.f(10.0, 2500.0, 0),
                specific_heat: rng.f(800.0, 1800.0, 0),
                vapour_diff: if rng.chance(1, 2) {
                    Some(rng.f(1.0, 100.0, 0))
                } else {
                    None
                },
            }
        } else {
            MatProps::Resistance {
                resistance: rng.f(0.05, 3.0, 2),
                vapour_diff: if rng.chance(1, 2) { Some(1.0) } else { None },
            }
        };
        m.cons.materials.push(Material {
            id: rng.uuid(),
            name: match rng.below(8) {
                0 => format!("FR Entrevigado de hormigón -Canto 300 mm {i}"),
                1 => format!("{}{i}", "ó".repeat(24)),
                2 => format!("a{}{i}", "ñ".repeat(24)),
                _ => format!("mat{i}"),
            },
            properties: props,
        });
    }
    let nwc = rng.range(1, 5);
    for i in 0..nwc {
        let nl = if o.odd && rng.chance(1, 8) { 0 } else { rng.range(1, 5) };
        let layers: Vec<Layer> = (0..nl)
            .map(|_| Layer {
                material: m.cons.materials[rng.below(nmat)].id,
                e: rng.f(0.005, 0.4, 3),
            })
            .collect();
        // odd models: the first construction has a first layer without thickness (a membrane given by its resistance, or nothing at all)
        let mut layers = layers;
        if o.odd && i == 0 && !layers.is_empty() {
            layers[0].e = 0.0;
        }
        m.cons.wallcons.push(WallCons {
            id: rng.uuid(),
            name: match rng.below(8) {
                0 => format!("Cerramiento de fábrica con cámara y aislamiento térmico {i}"),
                1 => format!("{}{i}", "é".repeat(20)),
                2 => format!("b{}{i}", "ü".repeat(20)),
                _ => format!("wc{i}"),
            },
            layers,
            absorptance: rng.f(0.2, 0.9, 2),
        });
    }
    let ngl = rng.range(1, 3);
    for i in 0..ngl {
        m.cons.glasses.push(Glass {
            id: rng.uuid(),
            name: format!("gl{i}"),
            u_value: rng.f(0.5, 5.8, 2),
            g_gln: rng.f(0.2, 0.9, 2),
        });
    }
    let nfr = rng.range(1, 3);
    for i in 0..nfr {
        m.cons.frames.push(Frame {
            id: rng.uuid(),
            name: format!("fr{i}"),
            u_value: rng.f(0.8, 6.0, 2),
            absorptivity: rng.f(0.2, 0.9, 2),
        });
    }
    let nwin = rng.range(1, 4);
    for i in 0..nwin {
        m.cons.wincons.push(WinCons {
            id: rng.uuid(),
            name: format!("winc{i}"),
            // odd models: a construction that declares its own figures but whose glazing or frame is not in the library
            glass: if o.odd && rng.chance(1, 4) { rng.uuid() } else { m.cons.glasses[rng.below(ngl)].id },
            frame: if o.odd && rng.chance(1, 6) { rng.uuid() } else { m.cons.frames[rng.below(nfr)].id },
            f_f: *rng.pick(&[0.0, 1.0, 0.1, 0.2, 0.25, 0.35, 0.5]),
            delta_u: *rng.pick(&[0.0, 0.0, 5.0, 10.0, 25.0, 50.0]),
            g_glshwi: if rng.chance(1, 2) {
                Some(match rng.below(6) {
                    0 => 0.0,
                    1 => 0.004,
                    2 => 1.0,
                    _ => rng.f(0.05, 0.7, 2),
                })
            } else {
                None
            },
            c_100: *rng.pick(&[3.0, 9.0, 27.0, 50.0, 100.0]),
        });
    }

    // ---- schedules, loads, thermostats
    if o.schedules {
        m.schedules = gen_schedules(rng, o.odd);
        let nl = rng.range(1, 3);
        for i in 0..nl {
            let mut pick = |rng: &mut Rng| {
                if rng.chance(5, 6) {
                    Some(m.schedules.year[rng.below(m.schedules.year.len())].id)
                } else {
                    None
                }
            };
            let ps = pick(rng);
            let es = pick(rng);
            let ls = pick(rng);
            m.loads.push(SpaceLoads {
                id: rng.uuid(),
                name: format!("cargas{i}"),
                area_per_person: rng.f(5.0, 40.0, 1),
                people_schedule: ps,
                people_sensible: rng.f(0.5, 10.0, 2),
                people_latent: rng.f(0.5, 8.0, 2),
                equipment: rng.f(0.5, 15.0, 2),
                equipment_schedule: es,
                lighting: rng.f(0.5, 15.0, 2),
                lighting_schedule: ls,
            });
        }
        let nt = rng.range(0, 2);
        for i in 0..nt {
            let a = Some(m.schedules.year[rng.below(m.schedules.year.len())].id);
            let b = if rng.chance(1, 2) {
                Some(m.schedules.year[rng.below(m.schedules.year.len())].id)
            } else {
                None
            };
            m.thermostats.push(Thermostat {
                id: rng.uuid(),
                name: format!("consignas{i}"),
                temp_max: a,
                temp_min: b,
            });
        }
    }

    // ---- spaces (boxes laid out in a row, then stacked)
    let nsp = rng.range(1, 6);
    struct Box3 {
        x0: f32,
        y0: f32,
        a: f32,
        b: f32,
    }
    let mut boxes = vec![];
    let mut x = 0.0f32;
    for i in 0..nsp {
        let a = rng.f(2.0, 12.0, 1);
        let b = rng.f(2.0, 12.0, 1);
        let kind = *rng.pick(&[
            SpaceType::CONDITIONED,
            SpaceType::CONDITIONED,
            SpaceType::CONDITIONED,
            SpaceType::UNCONDITIONED,
            SpaceType::UNINHABITED,
        ]);
        let z = *rng.pick(&[0.0, 0.0, 0.0, -1.0, -2.5, 3.0]);
        m.spaces.push(Space {
            id: rng.uuid(),
            name: if o.odd && rng.chance(1, 6) { format!("{} {i}", rng.pick(&ODD_NAMES)) } else { format!("esp{i}") },
            multiplier: if o.odd && rng.chance(1, 10) {
                0.5
            } else {
                *rng.pick(&[1.0, 1.0, 1.0, 2.0, 3.0])
            },
            kind,
            inside_tenv: rng.chance(4, 5),
            height: rng.f(2.4, 4.0, 2),
            z,
            loads: if !m.loads.is_empty() && rng.chance(3, 4) {
                Some(m.loads[rng.below(m.loads.len())].id)
            } else {
                None
            },
            thermostat: if !m.thermostats.is_empty() && rng.chance(1, 2) {
                Some(m.thermostats[rng.below(m.thermostats.len())].id)
            } else {
                None
            },
            n_v: if rng.chance(1, 3) {
                Some(rng.f(0.1, 3.0, 2))
            } else {
                None
            },
            illuminance: if rng.chance(1, 4) { Some(300.0) } else { None },
        });
        boxes.push(Box3 { x0: x, y0: 0.0, a, b });
        x += a;
    }

    let other_space = |rng: &mut Rng, i: usize, spaces: &Vec<Space>| -> Option<Uuid> {
        if spaces.len() < 2 {
            return None;
        }
        let mut j = rng.below(spaces.len());
        if j == i {
            j = (j + 1) % spaces.len();
        }
        Some(spaces[j].id)
    };

    let mut wallcount = 0;
    for i in 0..nsp {
        let sp = m.spaces[i].clone();
        let bx = &boxes[i];
        let (a, b, h, z) = (bx.a, bx.b, sp.height, sp.z);
        let mut add_wall = |m: &mut Model,
                            rng: &mut Rng,
                            label: &str,
                            tilt: f32,
                            azimuth: f32,
                            polygon: Polygon,
                            position: Option<Point3>,
                            bounds: BoundaryType| {
            // odd models: a wall that is no longer a partition may keep the neighbour it once had
            let next_to = if (bounds == BoundaryType::INTERIOR && rng.chance(9, 10)) || (o.odd && rng.chance(1, 8)) {
                other_space(rng, i, &m.spaces)
            } else {
                None
            };
            wallcount += 1;
            let w = Wall {
                id: rng.uuid(),
                name: format!("{}_{}{}", sp.name, label, wallcount),
                bounds,
                cons: m.cons.wallcons[rng.below(m.cons.wallcons.len())].id,
                space: sp.id,
                next_to,
                geometry: WallGeom {
                    tilt,
                    azimuth,
                    position: if o.positions { position } else { None },
                    polygon,
                },
            };
            m.walls.push(w);
            m.walls.len() - 1
        };
        use BoundaryType::*;
        // floor(s)
        let nfloors = if rng.chance(1, 6) { 2 } else { 1 };
        for k in 0..nfloors {
            let bounds = match envelope_kind {
                1 => ADIABATIC,
                2 => *rng.pick(&[GROUND, GROUND, ADIABATIC]),
                _ => *rng.pick(&[GROUND, GROUND, GROUND, EXTERIOR, INTERIOR, ADIABATIC]),
            };
            let tilt = if o.odd { *rng.pick(&TILTS_BOTTOM) } else { 180.0 };
            let poly = if k == 0 && rng.chance(1, 5) {
                lshape(a, b)
            } else {
                rect(a / nfloors as f32, b)
            };
            add_wall(
                &mut m,
                rng,
                "suelo",
                tilt,
                0.0,
                poly,
                Some(point![bx.x0 + k as f32 * a / nfloors as f32, bx.y0 + b, z]),
                bounds,
            );
        }
        // roof
        if rng.chance(5, 6) {
            let bounds = if envelope_kind != 0 { ADIABATIC } else { *rng.pick(&[EXTERIOR, EXTERIOR, EXTERIOR, INTERIOR, ADIABATIC, GROUND]) };
            let tilt = if o.odd { *rng.pick(&TILTS_TOP) } else { 0.0 };
            // the same rectangle listed from its second corner: the polygon's own frame (origin at its first vertex, x along its first
            // edge) then differs from the wall's local frame
            let roof_poly = if o.positions && rng.chance(1, 3) { vec![point![a, 0.0], point![a, b], point![0.0, b], point![0.0, 0.0]] } else { rect(a, b) };
            let wi = add_wall(
                &mut m,
                rng,
                "cubierta",
                tilt,
                0.0,
                roof_poly,
                Some(point![bx.x0, bx.y0, z + h]),
                bounds,
            );
            if bounds == EXTERIOR && rng.chance(1, 4) {
                // skylight
                let (ww, wh) = (rng.f(0.4, a.min(1.5) as f64, 2), rng.f(0.4, b.min(1.5) as f64, 2));
                let wall = m.walls[wi].id;
                m.windows.push(Window {
                    id: rng.uuid(),
                    name: format!("{}_lucernario", sp.name),
                    cons: m.cons.wincons[rng.below(m.cons.wincons.len())].id,
                    wall,
                    geometry: WinGeom {
                        position: if o.positions {
                            Some(point![0.2, 0.2])
                        } else {
                            None
                        },
                        height: wh,
                        width: ww,
                        setback: 0.0,
                    },
                });
            }
        }
        // sides: S, E, N, W
        // odd models: the building is turned by a random angle, or so that a façade falls exactly on a limit of the orientation sectors
        let dev = if o.odd && rng.chance(1, 3) {
            *rng.pick(&[18.0f32, 69.0, 120.0, 157.5, 202.5, 240.0, 291.0, 342.0, -18.0, -69.0, -120.0, -157.5])
        } else if o.odd {
            rng.f(-30.0, 30.0, 1)
        } else {
            0.0
        };
        let sides: [(f32, f32, Point3); 4] = [
            (0.0, a, point![bx.x0, bx.y0, z]),
            (90.0, b, point![bx.x0 + a, bx.y0, z]),
            (180.0, a, point![bx.x0 + a, bx.y0 + b, z]),
            (-90.0, b, point![bx.x0, bx.y0 + b, z]),
        ];
        for (az, len, pos) in sides {
            if rng.chance(1, 8) {
                continue;
            }
            let bounds = match envelope_kind {
                1 => *rng.pick(&[EXTERIOR, EXTERIOR, ADIABATIC]),
                2 => *rng.pick(&[ADIABATIC, ADIABATIC, INTERIOR]),
                _ => *rng.pick(&[EXTERIOR, EXTERIOR, EXTERIOR, INTERIOR, INTERIOR, GROUND, ADIABATIC]),
            };
            let tilt = if o.odd && !o.positions && envelope_kind != 1 {
                *rng.pick(&TILTS_SIDE)
            } else {
                90.0
            };
            // one outline in six has its first edge split by an extra vertex: its first three vertices lie on one line
            let tilt = if o.odd && !o.positions && i % 3 == 1 && az == 90.0 { 240.0 } else { tilt };
            let side_poly = if rng.chance(1, 6) { vec![point![0.0, 0.0], point![len * 0.5, 0.0], point![len, 0.0], point![len, h], point![0.0, h]] } else { rect(len, h) };
            let wi = add_wall(
                &mut m,
                rng,
                "muro",
                tilt,
                if o.positions { az } else { az + dev },
                side_poly,
                Some(pos),
                bounds,
            );
            let nwin = if bounds == EXTERIOR || rng.chance(1, 6) {
                rng.below(3)
            } else {
                0
            };
            // curtain wall: one window over the whole wall (net opaque area 0); windows larger than their wall are outside
            // what the properties quantify over (the net area would be negative)
            let curtain = bounds == EXTERIOR && tilt == 90.0 && (envelope_kind == 1 || rng.chance(1, 10));
            if curtain {
                let wall = m.walls[wi].id;
                m.windows.push(Window {
                    id: rng.uuid(),
                    name: format!("{}_cortina", m.walls[wi].name),
                    cons: m.cons.wincons[rng.below(m.cons.wincons.len())].id,
                    wall,
                    geometry: WinGeom {
                        position: if o.positions { Some(point![0.0, 0.0]) } else { None },
                        height: h,
                        width: len,
                        setback: 0.0,
                    },
                });
            }
            let nwin = if curtain { 0 } else { nwin };
            for k in 0..nwin {
                let ww = rng.f(0.4, (len as f64 / 2.2).min(2.5).max(0.5), 2);
                let wh = rng.f(0.4, (h as f64 - 1.0).min(2.0), 2);
                let wall = m.walls[wi].id;
                let has_cons = rng.chance(9, 10);
                m.windows.push(Window {
                    id: rng.uuid(),
                    name: format!("{}_h{}", m.walls[wi].name, k),
                    cons: if has_cons {
                        m.cons.wincons[rng.below(m.cons.wincons.len())].id
                    } else {
                        Uuid::nil()
                    },
                    wall,
                    geometry: WinGeom {
                        position: if o.positions && rng.chance(9, 10) {
                            Some(point![
                                (0.1 + k as f32 * (len / 2.0)).min((len - ww).max(0.0)),
                                rng.f(0.3, 0.9, 2)
                            ])
                        } else {
                            None
                        },
                        height: wh,
                        width: ww,
                        setback: if rng.chance(1, 3) {
                            rng.f(0.05, 0.5, 2)
                        } else {
                            0.0
                        },
                    },
                });
            }
        }
    }

    // ---- thermal bridges
    use ThermalBridgeKind::*;
    let kinds = [
        ROOF,
        BALCONY,
        CORNER,
        INTERMEDIATEFLOOR,
        INTERNALWALL,
        GROUNDFLOOR,
        PILLAR,
        WINDOW,
        GENERIC,
    ];
    let ntb = rng.range(0, 9);
    for i in 0..ntb {
        let l = match rng.below(10) {
            0 => 0.0,
            1 => -rng.f(0.5, 20.0, 1),
            _ => rng.f(0.5, 60.0, 1),
        };
        m.thermal_bridges.push(ThermalBridge {
            id: rng.uuid(),
            name: format!("pt{i}"),
            kind: kinds[rng.below(9)],
            l,
            psi: rng.f(0.0, 1.2, 2),
        });
    }

    // ---- free-standing shades
    if o.positions {
        for i in 0..o.shades {
            m.shades.push(Shade {
                id: rng.uuid(),
                name: format!("sombra{i}"),
                geometry: WallGeom {
                    tilt: *rng.pick(&[90.0, 90.0, 0.0, 45.0]),
                    azimuth: rng.f(-180.0, 180.0, 0),
                    position: Some(point![
                        rng.f(-15.0, 40.0, 1),
                        rng.f(-25.0, 25.0, 1),
                        rng.f(0.0, 6.0, 1)
                    ]),
                    polygon: rect(rng.f(1.0, 12.0, 1), rng.f(1.0, 9.0, 1)),
                },
            });
        }
    }

    // ---- remote obstacles: ridges 1.2 to 4 km away to the south, east and west, as high as half their distance (two per side, one
    // starting at either end, so that one of them stands in front of the building whatever the sense of its local x axis)
    if o.positions && o.shades > 0 && rng.chance(1, 4) {
        let d = *rng.pick(&[1200.0f32, 1500.0, 2500.0, 4000.0]);
        for (k, (az, px, py)) in [(0.0f32, -1.2f32, -1.0f32), (0.0, 1.2, -1.0), (90.0, 1.0, -1.2), (90.0, 1.0, 1.2), (-90.0, -1.0, 1.2), (-90.0, -1.0, -1.2)].iter().enumerate() {
            m.shades.push(Shade {
                id: rng.uuid(),
                name: format!("sierra{k}"),
                geometry: WallGeom { tilt: 90.0, azimuth: *az, position: Some(point![px * d, py * d, 0.0]), polygon: rect(2.4 * d, 0.5 * d) },
            });
        }
    }

    // ---- a louvre: 34 identical slats stacked a few centimetres apart (their centres coincide on two axes, at a decimal coordinate)
    if o.positions && o.shades > 0 && rng.chance(1, 4) {
        let (x0, y0, z0) = (rng.f(-10.0, 30.0, 2), rng.f(-20.0, -3.0, 2), rng.f(0.5, 3.0, 2));
        let tilt = *rng.pick(&[0.0, 45.0, 90.0]);
        for k in 0..34 {
            m.shades.push(Shade {
                id: rng.uuid(),
                name: format!("lama{k}"),
                geometry: WallGeom { tilt, azimuth: 0.0, position: Some(point![x0, y0, z0 + 0.03 * k as f32]), polygon: rect(2.1, 0.1) },
            });
        }
    }

    // ---- overrides on random subsets
    for w in &m.walls {
        if rng.chance(1, 10) {
            m.overrides.walls.insert(
                w.id,
                WallPropsOverrides {
                    // a user value may be 0 (a boundary of its range)
                    u_value: if rng.chance(1, 8) {
                        Some(0.0)
                    } else if rng.chance(4, 5) {
                        Some(rng.f(0.1, 3.0, 2))
                    } else {
                        None
                    },
                },
            );
        }
    }
    for w in &m.windows {
        if rng.chance(1, 6) {
            m.overrides.windows.insert(
                w.id,
                WinPropsOverrides {
                    u_value: if rng.chance(1, 2) {
                        Some(rng.f(0.8, 5.0, 2))
                    } else {
                        None
                    },
                    f_shobst: if rng.chance(1, 6) {
                        Some(*rng.pick(&[0.0f32, 0.0, 1.0]))
                    } else if rng.chance(1, 2) {
                        Some(rng.f(0.0, 1.0, 2))
                    } else {
                        None
                    },
                },
            );
        }
    }

    // odd models: an element may carry the nil id itself (nothing forbids it) and be referred to correctly
    if o.odd && rng.chance(1, 6) && !m.spaces.is_empty() {
        let old = m.spaces[0].id;
        m.spaces[0].id = Uuid::nil();
        for w in m.walls.iter_mut() {
            if w.space == old {
                w.space = Uuid::nil();
            }
            if w.next_to == Some(old) {
                w.next_to = Some(Uuid::nil());
            }
        }
    }
    if o.odd && rng.chance(1, 6) && !m.cons.wallcons.is_empty() {
        let old = m.cons.wallcons[0].id;
        m.cons.wallcons[0].id = Uuid::nil();
        for w in m.walls.iter_mut() {
            if w.cons == old {
                w.cons = Uuid::nil();
            }
        }
    }
    if o.odd && m.spaces.len() % 3 == 1 && !m.cons.glasses.is_empty() {
        let old = m.cons.glasses[0].id;
        m.cons.glasses[0].id = Uuid::nil();
        for c in m.cons.wincons.iter_mut() {
            if c.glass == old {
                c.glass = Uuid::nil();
            }
        }
    }
    if o.unused {
        add_unused(rng, &mut m);
    }
    if o.broken {
        break_links(rng, &mut m);
    }
    // the order of the lists carries no meaning: in one model out of three the windows of different walls are interleaved
    if rng.chance(1, 3) && m.windows.len() > 2 {
        for i in (1..m.windows.len()).rev() {
            let j = rng.below(i + 1);
            m.windows.swap(i, j);
        }
    }
    m
}

/// unused items of every kind (for C16)
pub fn add_unused(rng: &mut Rng, m: &mut Model) {
    let n = rng.range(0, 2);
    for i in 0..n {
        let pos = rng.below(m.spaces.len() + 1);
        m.spaces.insert(
            pos,
            Space {
                id: rng.uuid(),
                name: format!("sin_uso{i}"),
                height: 2.7,
                loads: m.loads.first().map(|l| l.id),
                ..Default::default()
            },
        );
    }
    // a space that owns no wall and is referred to only as the neighbour of somebody else's wall
    // (an attic above interior slabs): reachable, must be kept
    if rng.chance(1, 2) {
        let id = rng.uuid();
        let pos = rng.below(m.spaces.len() + 1);
        m.spaces.insert(
            pos,
            Space {
                id,
                name: "solo_adyacente".into(),
                height: 2.5,
                kind: SpaceType::UNINHABITED,
                ..Default::default()
            },
        );
        let nw = m.walls.len();
        if nw > 0 {
            let k = rng.below(nw);
            m.walls[k].next_to = Some(id);
        }
    }
    for i in 0..rng.range(0, 2) {
        let pos = rng.below(m.cons.materials.len() + 1);
        m.cons.materials.insert(
            pos,
            Material {
                id: rng.uuid(),
                name: format!("mat_sin_uso{i}"),
                properties: MatProps::Resistance {
                    resistance: 0.2,
                    vapour_diff: None,
                },
            },
        );
    }
    for i in 0..rng.range(0, 2) {
        let mat = m.cons.materials[rng.below(m.cons.materials.len())].id;
        let pos = rng.below(m.cons.wallcons.len() + 1);
        m.cons.wallcons.insert(
            pos,
            WallCons {
                id: rng.uuid(),
                name: format!("wc_sin_uso{i}"),
                layers: vec![Layer { material: mat, e: 0.1 }],
                absorptance: 0.6,
            },
        );
    }
    for i in 0..rng.range(0, 2) {
        m.cons.glasses.push(Glass {
            id: rng.uuid(),
            name: format!("gl_sin_uso{i}"),
            u_value: 1.0,
            g_gln: 0.5,
        });
        m.cons.frames.insert(
            0,
            Frame {
                id: rng.uuid(),
                name: format!("fr_sin_uso{i}"),
                u_value: 2.0,
                absorptivity: 0.5,
            },
        );
    }
    for i in 0..rng.range(0, 2) {
        let g = m.cons.glasses[rng.below(m.cons.glasses.len())].id;
        let f = m.cons.frames[rng.below(m.cons.frames.len())].id;
        m.cons.wincons.push(WinCons {
            id: rng.uuid(),
            name: format!("winc_sin_uso{i}"),
            glass: g,
            frame: f,
            ..Default::default()
        });
    }
    if rng.chance(1, 2) {
        let extra = gen_schedules(rng, false);
        let y = extra.year[0].id;
        m.schedules.year.extend(extra.year);
        m.schedules.week.extend(extra.week);
        m.schedules.day.extend(extra.day);
        if rng.chance(1, 2) {
            m.loads.push(SpaceLoads {
                id: rng.uuid(),
                name: "cargas_sin_uso".into(),
                area_per_person: 10.0,
                people_schedule: Some(y),
                ..Default::default()
            });
        }
        if rng.chance(1, 2) {
            m.thermostats.insert(
                0,
                Thermostat {
                    id: rng.uuid(),
                    name: "consignas_sin_uso".into(),
                    temp_max: Some(y),
                    temp_min: None,
                },
            );
        }
    }
    // long lists: a construction of 30 layers, each of a material of its own, with an unused material after every second one, and
    // as many constructions again, every third one unused (survivors far apart in a long list)
    if rng.chance(1, 3) && !m.walls.is_empty() {
        let mut layers = vec![];
        for k in 0..45 {
            let id = rng.uuid();
            m.cons.materials.push(Material { id, name: format!("capa{k}"), properties: MatProps::Resistance { resistance: 0.05 + 0.01 * (k % 7) as f32, vapour_diff: None } });
            if k % 3 != 2 {
                layers.push(Layer { material: id, e: 0.01 });
            }
        }
        let big = rng.uuid();
        m.cons.wallcons.push(WallCons { id: big, name: "muchas_capas".into(), layers: layers.clone(), absorptance: 0.6 });
        let nw = m.walls.len();
        for k in 0..36 {
            let id = rng.uuid();
            m.cons.wallcons.push(WallCons { id, name: format!("variante{k}"), layers: layers[..(1 + k % 5)].to_vec(), absorptance: 0.6 });
            if k % 3 != 2 {
                m.walls[(k * 7) % nw].cons = id;
            }
        }
        m.walls[0].cons = big;
    }
    // ids are unique within each list only: an unused weekly schedule may carry the id of a yearly one that is in use, an unused daily
    // one the id of a weekly one in use
    if rng.chance(1, 2) && !m.schedules.year.is_empty() && !m.schedules.week.is_empty() && !m.schedules.day.is_empty() {
        let some_day = m.schedules.day[0].id;
        let yid = m.schedules.year[rng.below(m.schedules.year.len())].id;
        m.schedules.week.push(ScheduleWeek { id: yid, name: "semana_con_id_de_anual".into(), values: vec![(some_day, 7)] });
        let wid = m.schedules.week[rng.below(m.schedules.week.len() - 1)].id;
        m.schedules.day.push(ScheduleDay { id: wid, name: "dia_con_id_de_semana".into(), values: vec![0.25; 24] });
        if let Some(l) = m.loads.first() {
            // and an unused space-loads definition is not made reachable by a thermostat of the same id
            m.thermostats.push(Thermostat { id: l.id, name: "consignas_con_id_de_cargas".into(), temp_max: None, temp_min: None });
        }
    }
    for _ in 0..rng.range(0, 2) {
        let pos = rng.below(m.thermal_bridges.len() + 1);
        m.thermal_bridges.insert(
            pos,
            ThermalBridge {
                id: rng.uuid(),
                name: "pt_nulo".into(),
                kind: ThermalBridgeKind::GENERIC,
                l: *rng.pick(&[0.0, 1e-8, -1e-8, 1.0e-7, 1.3e-7]),
                psi: 0.5,
            },
        );
    }
}

/// redirect random links to absent or nil ids; negate random bridge lengths (0 becomes -0.0)
pub fn break_links(rng: &mut Rng, m: &mut Model) {
    // ids that exist in the model, in whatever collection: a link redirected to one of them is (almost always) a link to the wrong kind
    let mut foreign: Vec<Uuid> = vec![];
    foreign.extend(m.spaces.iter().map(|x| x.id));
    foreign.extend(m.walls.iter().map(|x| x.id));
    foreign.extend(m.windows.iter().map(|x| x.id));
    foreign.extend(m.cons.wallcons.iter().map(|x| x.id));
    foreign.extend(m.cons.wincons.iter().map(|x| x.id));
    foreign.extend(m.cons.materials.iter().map(|x| x.id));
    foreign.extend(m.cons.glasses.iter().map(|x| x.id));
    foreign.extend(m.cons.frames.iter().map(|x| x.id));
    let bad = move |rng: &mut Rng| match rng.below(3) {
        0 => Uuid::nil(),
        1 if !foreign.is_empty() => foreign[rng.below(foreign.len())],
        _ => rng.uuid(),
    };
    for w in m.walls.iter_mut() {
        if rng.chance(1, 8) {
            w.space = bad(rng);
        }
        if rng.chance(1, 8) {
            w.cons = bad(rng);
        }
        if rng.chance(1, 8) {
            w.next_to = Some(bad(rng));
        }
    }
    for w in m.windows.iter_mut() {
        if rng.chance(1, 6) {
            w.wall = bad(rng);
        }
        if rng.chance(1, 6) {
            w.cons = bad(rng);
        }
    }
    for tb in m.thermal_bridges.iter_mut() {
        if rng.chance(1, 3) {
            tb.l = -tb.l;
        }
    }
    for c in m.cons.wallcons.iter_mut() {
        for l in c.layers.iter_mut() {
            if rng.chance(1, 12) {
                l.material = bad(rng);
            }
        }
    }
    for c in m.cons.wincons.iter_mut() {
        if rng.chance(1, 8) {
            c.glass = bad(rng);
        }
        if rng.chance(1, 8) {
            c.frame = bad(rng);
        }
    }
}
